//! C20 worker: runs the parser (built with one feature set) over every input
//! of a file (one hex string per line) and prints one canonical event log per
//! line. A panic on an input is reported as `PANIC:<message>` for that line.
#[path = "/verif/harness/c20fmt.rs"]
mod c20fmt;

use anstyle_parse::{Params, Parser, Perform};
use std::io::{BufRead, Write};

#[derive(Default)]
struct Log(Vec<String>);

fn groups(p: &Params) -> Vec<Vec<u16>> {
    p.iter().map(|x| x.to_vec()).collect()
}

impl Perform for Log {
    fn print(&mut self, c: char) {
        self.0.push(c20fmt::print(c));
    }
    fn execute(&mut self, b: u8) {
        self.0.push(c20fmt::exec(b));
    }
    fn hook(&mut self, p: &Params, i: &[u8], ig: bool, a: u8) {
        self.0.push(c20fmt::hook(&groups(p), i, ig, a));
    }
    fn put(&mut self, b: u8) {
        self.0.push(c20fmt::put(b));
    }
    fn unhook(&mut self) {
        self.0.push(c20fmt::unhook());
    }
    fn osc_dispatch(&mut self, p: &[&[u8]], bell: bool) {
        let f: Vec<Vec<u8>> = p.iter().map(|x| x.to_vec()).collect();
        self.0.push(c20fmt::osc(&f, bell));
    }
    fn csi_dispatch(&mut self, p: &Params, i: &[u8], ig: bool, a: u8) {
        self.0.push(c20fmt::csi(&groups(p), i, ig, a));
    }
    fn esc_dispatch(&mut self, i: &[u8], ig: bool, b: u8) {
        self.0.push(c20fmt::esc(i, ig, b));
    }
}

fn unhex(s: &str) -> Vec<u8> {
    s.as_bytes().chunks(2).filter(|c| c.len() == 2).map(|c| u8::from_str_radix(std::str::from_utf8(c).unwrap(), 16).unwrap()).collect()
}

fn main() {
    std::panic::set_hook(Box::new(|_| {}));
    let path = std::env::args().nth(1).expect("input file");
    let f = std::io::BufReader::new(std::fs::File::open(path).expect("open"));
    let out = std::io::stdout();
    let mut out = std::io::BufWriter::new(out.lock());
    for line in f.lines() {
        let line = line.expect("read");
        let bytes = unhex(line.trim());
        let r = std::panic::catch_unwind(|| {
            let mut log = Log::default();
            let mut p = Parser::<anstyle_parse::DefaultCharAccumulator>::new();
            for b in &bytes {
                p.advance(&mut log, *b);
            }
            log.0.join(" ")
        });
        match r {
            Ok(s) => writeln!(out, "{s}").unwrap(),
            Err(e) => {
                let m = e.downcast_ref::<&str>().map(|s| s.to_string()).or_else(|| e.downcast_ref::<String>().cloned()).unwrap_or_default();
                writeln!(out, "PANIC:{}", m.replace('\n', " ")).unwrap()
            }
        }
    }
}
