// Reproducer for the C11 audit finding: a decimal colour number written with a
// leading '+' sign ("+5", "+0", "+255") is accepted as a 256-colour index,
// although the property's syntax lists only '-1' and 0-255 as numeric colours
// and demands that "any other word is rejected with the error that names that
// word (... anything else as unknown)".
//
// Run (fails on the current code):
//   CARGO_TARGET_DIR=/tmp/mut/C11h/target cargo test --offline -p anstyle-git --test audit_demo
//
// Cause: crates/anstyle-git/src/lib.rs, parse_color(): `word.parse::<u8>()`
// (Rust's integer FromStr accepts one leading '+').

use anstyle_git::{parse, Error};

fn expect_unknown(s: &str, word: &str) {
    assert_eq!(
        parse(s),
        Err(Error::UnknownWord {
            style: s.to_owned(),
            word: word.to_owned(),
        }),
        "input {s:?}: the word {word:?} is not in the documented syntax and must be rejected as unknown"
    );
}

#[test]
fn plus_signed_number_is_not_a_colour() {
    // control: the other sign near-misses are rejected as the property demands
    expect_unknown("-2", "-2");
    expect_unknown("-0", "-0");
    expect_unknown("+", "+");
    expect_unknown("+256", "+256");
    expect_unknown("#+1+2+3", "#+1+2+3");
    // the violation
    expect_unknown("+5", "+5");
}

#[test]
fn plus_signed_number_as_second_and_third_word() {
    // accepted as background colour instead of being rejected
    expect_unknown("red +0", "+0");
    // reported as an *extra colour* instead of as an unknown word
    expect_unknown("red blue +255", "+255");
}
