// Audit reproducer for property C14 (style-faithful SVG rendering).
//
// Run with:
//   CARGO_TARGET_DIR=/tmp/mut/C14h/target cargo test --offline -p anstyle-svg --test audit_demo
//
// Clause: "The classes on each span denote the style in effect for that text - colours and
// effects, with invert swapping foreground and background against the configured defaults".
//
// Input (inside the domain: SGR sequences + XML-special characters):
//   ESC[41m & ESC[0m abcd
// The red background is in effect for exactly one column (the `&`); `abcd` has the default
// background.  The background row of the SVG must therefore carry `bg-red` for one column and
// no background class for the four following columns.  The current code measures the width of
// the *XML-escaped* fragment (`&amp;` = 5 columns), so `bg-red` covers five columns: the four
// cells under `abcd` are painted red although no background colour is in effect for them.

/// Returns, for the first rendered line that has a background row, one entry per column of that
/// row: the class of the span that covers the column (`None` = span without class).
fn background_row(svg: &str) -> Vec<Option<String>> {
    // The background row is the first line-level tspan inside <text>; the foreground row follows
    // with the same y.
    let text = &svg[svg.find("<text").expect("<text>")..];
    let row_start = text.find("<tspan x=").expect("line tspan");
    let row = &text[row_start..];
    let row = &row[row.find('>').unwrap() + 1..];
    let row_end = row.find("\n</tspan>").expect("end of row");
    let mut rest = &row[..row_end];
    let mut columns = Vec::new();
    while let Some(start) = rest.find("<tspan") {
        let after = &rest[start..];
        let tag_end = after.find('>').unwrap();
        let tag = &after[..tag_end];
        let class = tag
            .split_once("class=\"")
            .map(|(_, c)| c[..c.find('"').unwrap()].to_owned());
        let body = &after[tag_end + 1..];
        let body_end = body.find("</tspan>").unwrap();
        for _ in body[..body_end].chars() {
            columns.push(class.clone());
        }
        rest = &body[body_end + "</tspan>".len()..];
    }
    columns
}

fn expected(red_columns: usize, plain_columns: usize) -> Vec<Option<String>> {
    let mut v = vec![Some("bg-red".to_owned()); red_columns];
    v.extend(std::iter::repeat(None).take(plain_columns));
    v
}

#[test]
fn control_plain_letter_background_covers_one_column() {
    // Same shape without an XML-special character: passes.
    let svg = anstyle_svg::Term::new().render_svg("\u{1b}[41mx\u{1b}[0mabcd");
    assert_eq!(background_row(&svg), expected(1, 4), "{svg}");
}

#[test]
fn ampersand_background_covers_one_column() {
    let svg = anstyle_svg::Term::new().render_svg("\u{1b}[41m&\u{1b}[0mabcd");
    // the foreground row is fine: `&amp;` (one character) then `abcd`
    assert!(svg.contains("<tspan>&amp;</tspan><tspan>abcd</tspan>"), "{svg}");
    // the background row must colour exactly the one column of `&`
    assert_eq!(background_row(&svg), expected(1, 4), "{svg}");
}

#[test]
fn angle_brackets_background_covers_their_columns() {
    // `<>` is two columns wide; the unstyled tail `ab` two more.
    let svg = anstyle_svg::Term::new().render_svg("\u{1b}[41m<>\u{1b}[0mab");
    assert_eq!(background_row(&svg), expected(2, 2), "{svg}");
}

#[test]
fn special_characters_outside_the_coloured_part_shift_the_background() {
    // `&&` has the default background, `X` is red: the red cell must be column 2 (0-based).
    let svg = anstyle_svg::Term::new().render_svg("&&\u{1b}[41mX");
    let mut want = vec![None, None];
    want.push(Some("bg-red".to_owned()));
    assert_eq!(background_row(&svg), want, "{svg}");
}
