// Reproducer for a violation of property C12 ("rejects anything that is not a list of
// numbers in 0-255"; domain explicitly includes malformed inputs with *signs*).
//
// Run (from /tmp/mut/C12h):
//   CARGO_TARGET_DIR=/tmp/mut/C12h/target cargo test --offline -p anstyle-ls --test audit_demo
//
// `anstyle_ls::parse` splits on ';' and feeds every field to `str::parse::<u8>()`, which
// accepts an optional leading '+'.  So fields carrying a plus sign ("+1", "1;+2", "38;5;+1",
// "+0", "+00") are accepted and styled although they are not decimal SGR codes, while the
// mirror inputs with '-' are rejected.  These tests FAIL on the current code.

#[test]
fn plus_sign_single_code_is_rejected() {
    assert_eq!(
        anstyle_ls::parse("+1"),
        None,
        "\"+1\" is not a decimal code list; got a bold style"
    );
}

#[test]
fn plus_sign_inside_list_is_rejected() {
    assert_eq!(anstyle_ls::parse("1;+2"), None);
    assert_eq!(anstyle_ls::parse("31;+04"), None);
}

#[test]
fn plus_sign_inside_extended_colour_is_rejected() {
    assert_eq!(anstyle_ls::parse("38;5;+1"), None);
    assert_eq!(anstyle_ls::parse("48;2;+1;+2;+3"), None);
}

#[test]
fn plus_zero_is_rejected() {
    // neither the "no style" spellings ("", "0", "00") nor a number list
    assert_eq!(anstyle_ls::parse("+0"), None);
    assert_eq!(anstyle_ls::parse("+00"), None);
}

// Control: the minus sign and a bare sign ARE rejected (passes today) - shows the asymmetry.
#[test]
fn control_minus_and_bare_signs_are_rejected() {
    for s in ["-1", "-0", "1;-2", "+", "-", "1;+", "++1", "+-1", "1+"] {
        assert_eq!(anstyle_ls::parse(s), None, "{s:?}");
    }
}
