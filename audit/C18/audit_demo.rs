// C18 audit reproducer. Run (from /tmp/mut/C18h):
//
//   CARGO_TARGET_DIR=/tmp/mut/C18h/target cargo test --offline -p anstream --test audit_demo
//
// The real crates/anstream/src/wincon.rs and src/fmt.rs are compiled into this test with `#[path]`
// (the crate only builds them on Windows); `anstyle_wincon`, `crate::adapter` and `crate::stream`
// are small stand-ins, the console writer is a recording one.  Both tests FAIL on the current code.
#![allow(dead_code, unused_imports, clippy::all)]

extern crate self as anstyle_wincon;

use std::cell::RefCell;
use std::rc::Rc;

pub trait WinconStream {
    fn write_colored(
        &mut self,
        fg: Option<anstyle::AnsiColor>,
        bg: Option<anstyle::AnsiColor>,
        data: &[u8],
    ) -> std::io::Result<usize>;
}

impl<T: WinconStream + ?Sized> WinconStream for &mut T {
    fn write_colored(
        &mut self,
        fg: Option<anstyle::AnsiColor>,
        bg: Option<anstyle::AnsiColor>,
        data: &[u8],
    ) -> std::io::Result<usize> {
        (**self).write_colored(fg, bg, data)
    }
}

macro_rules! plain {
    ($($t:ty),*) => {$(
        impl WinconStream for $t {
            fn write_colored(
                &mut self,
                _fg: Option<anstyle::AnsiColor>,
                _bg: Option<anstyle::AnsiColor>,
                data: &[u8],
            ) -> std::io::Result<usize> {
                std::io::Write::write(self, data)
            }
        }
    )*};
}
plain!(
    Vec<u8>,
    std::io::Stdout,
    std::io::StdoutLock<'static>,
    std::io::Stderr,
    std::io::StderrLock<'static>
);

mod adapter {
    pub use anstream::adapter::WinconBytes;
}

mod stream {
    pub trait IsTerminal {
        fn is_terminal(&self) -> bool;
    }
    pub trait AsLockedWrite {
        type Write<'w>: crate::WinconStream + std::io::Write + 'w
        where
            Self: 'w;
        fn as_locked_write(&mut self) -> Self::Write<'_>;
    }
    impl AsLockedWrite for Vec<u8> {
        type Write<'w> = &'w mut Vec<u8>;
        fn as_locked_write(&mut self) -> Self::Write<'_> {
            self
        }
    }
    impl AsLockedWrite for crate::Rec {
        type Write<'w> = &'w mut crate::Rec;
        fn as_locked_write(&mut self) -> Self::Write<'_> {
            self
        }
    }
}

#[path = "../src/fmt.rs"]
mod fmt;
#[path = "../src/wincon.rs"]
mod wincon;

type Call = (Option<anstyle::AnsiColor>, Option<anstyle::AnsiColor>, Vec<u8>);

#[derive(Default, Debug)]
pub struct Rec {
    calls: Vec<Call>,
}

impl WinconStream for Rec {
    fn write_colored(
        &mut self,
        fg: Option<anstyle::AnsiColor>,
        bg: Option<anstyle::AnsiColor>,
        data: &[u8],
    ) -> std::io::Result<usize> {
        self.calls.push((fg, bg, data.to_vec()));
        Ok(data.len())
    }
}
impl std::io::Write for Rec {
    fn write(&mut self, buf: &[u8]) -> std::io::Result<usize> {
        Ok(buf.len())
    }
    fn flush(&mut self) -> std::io::Result<()> {
        Ok(())
    }
}

fn run(chunks: &[&[u8]]) -> Vec<(Option<anstyle::AnsiColor>, Option<anstyle::AnsiColor>, String)> {
    use std::io::Write as _;
    let mut s = wincon::WinconStream::new(Rec::default());
    for c in chunks {
        s.write_all(c).unwrap();
    }
    s.into_inner()
        .calls
        .into_iter()
        .map(|(f, b, d)| (f, b, String::from_utf8_lossy(&d).into_owned()))
        .collect()
}


type Seen = Vec<(Option<anstyle::AnsiColor>, Option<anstyle::AnsiColor>, String)>;

/// V1: "other indexed ... colours falling back to the default"
///
/// An indexed colour whose index is not 0-15 must reach the console as the default colour.
/// `38;5;257` / `48;5;265` / `38:5:258` are truncated to u8 (257 -> 1, 265 -> 9, 258 -> 2) and
/// arrive as Red / BrightRed / Green.
#[test]
fn v1_indexed_colour_above_255_wraps_into_palette() {
    use anstyle::AnsiColor::*;
    let _ = (Red, BrightRed, Green);
    let expected: Seen = vec![(None, None, "X".to_owned())];
    for input in [
        &b"\x1b[38;5;257mX"[..],
        &b"\x1b[48;5;265mX"[..],
        &b"\x1b[38:5:258mX"[..],
        &b"\x1b[38;5;256mX"[..],
    ] {
        // same result for the whole buffer and for byte-sized chunks
        let bytes: Vec<&[u8]> = input.chunks(1).collect();
        assert_eq!(run(&[input]), run(&bytes));
        assert_eq!(
            run(&[input]),
            expected,
            "input {:?}: index is outside 0-15, fg/bg must fall back to the default",
            String::from_utf8_lossy(input)
        );
    }
}

/// V2: "passes every run of visible text to the console writer exactly once and in order, with the
/// run's foreground and background ..."
///
/// After a truncated UTF-8 character the next byte is swallowed, whatever it is:
/// - an ordinary visible character is never handed over (`b` in `a\xC3bc`),
/// - an ESC is swallowed, so the rest of `ESC [ 3 1 m` is handed over as the text "[31m" and the
///   run after it is not red.
/// (`strip_bytes`, the sibling adapter, keeps `b` and removes the escape sequence for the same input.)
#[test]
fn v2_byte_after_truncated_utf8_is_swallowed() {
    let seen = run(&[b"a\xc3bc"]);
    let text: String = seen.iter().map(|c| c.2.as_str()).collect();
    let stripped = anstream::adapter::strip_bytes(b"a\xc3bc").into_vec();
    assert_eq!(String::from_utf8_lossy(&stripped), "a\u{fffd}bc");
    assert!(
        text.contains('b'),
        "visible character `b` was never handed to the console: {seen:?}"
    );

    let seen = run(&[b"a\xc3\x1b[31mX"]);
    let text: String = seen.iter().map(|c| c.2.as_str()).collect();
    assert!(
        !text.contains("[31m"),
        "the body of the escape sequence was handed over as text: {seen:?}"
    );
    assert_eq!(
        seen.last().map(|c| (c.0, c.2.as_str())),
        Some((Some(anstyle::AnsiColor::Red), "X")),
        "{seen:?}"
    );
}
