// Reproducer for a C16 violation in the owo-colors adapter (as built from this workspace's Cargo.lock,
// which pins owo-colors 4.0.0).
//
// Run (FAILS on the current code):
//   CARGO_TARGET_DIR=/tmp/mut/C16h/target cargo test --offline -p anstyle-owo-colors --test audit_demo
//
// A style with NO foreground, a background colour and at least one effect is converted with
// `anstyle_owo_colors::to_owo_style` and rendered by owo-colors.  The rendered SGR sequence glues the
// last number of the background colour to the first effect code (missing `;`), so its interpretation
// has a different background (or none) and loses the effect:
//   bg=Black        + BOLD          -> ESC[401m           (want ESC[40;1m)
//   bg=Ansi256(25)  + STRIKETHROUGH -> ESC[48;5;259m      (want ESC[48;5;25;9m)
//   bg=Rgb(1,2,3)   + BOLD          -> ESC[48;2;1;2;31m   (want ESC[48;2;1;2;3;1m)  blue 3 became 31

use anstyle::{Ansi256Color, AnsiColor, Color, Effects, RgbColor, Style};

#[derive(Debug, PartialEq, Eq, Default)]
struct Seen {
    bg: Option<Bg>,
    bold: bool,
    strike: bool,
    unknown: Vec<u32>,
}

#[derive(Debug, PartialEq, Eq)]
enum Bg {
    Named(u32),
    Idx(u32),
    Rgb(u32, u32, u32),
}

/// Interpret the SGR parameters of the leading `ESC [ ... m` of `s`.
fn interpret(s: &str) -> Seen {
    let body = s
        .strip_prefix("\x1b[")
        .and_then(|r| r.split_once('m'))
        .map(|(b, _)| b)
        .unwrap_or_else(|| panic!("no leading SGR sequence in {s:?}"));
    let p: Vec<u32> = body.split(';').map(|n| n.parse().unwrap()).collect();
    let mut seen = Seen::default();
    let mut i = 0;
    while i < p.len() {
        match p[i] {
            1 => seen.bold = true,
            9 => seen.strike = true,
            40..=47 => seen.bg = Some(Bg::Named(p[i] - 40)),
            48 if p.get(i + 1) == Some(&5) => {
                seen.bg = Some(Bg::Idx(p[i + 2]));
                i += 2;
            }
            48 if p.get(i + 1) == Some(&2) => {
                seen.bg = Some(Bg::Rgb(p[i + 2], p[i + 3], p[i + 4]));
                i += 4;
            }
            other => seen.unknown.push(other),
        }
        i += 1;
    }
    seen
}

fn render(style: Style) -> String {
    anstyle_owo_colors::to_owo_style(style).style("x").to_string()
}

#[test]
fn named_background_with_bold() {
    let style = Style::new()
        .bg_color(Some(Color::Ansi(AnsiColor::Black)))
        .effects(Effects::BOLD);
    let out = render(style);
    let want = Seen { bg: Some(Bg::Named(0)), bold: true, ..Default::default() };
    assert_eq!(interpret(&out), want, "rendered {out:?}");
}

#[test]
fn indexed_background_with_strikethrough() {
    let style = Style::new()
        .bg_color(Some(Color::Ansi256(Ansi256Color(25))))
        .effects(Effects::STRIKETHROUGH);
    let out = render(style);
    let want = Seen { bg: Some(Bg::Idx(25)), strike: true, ..Default::default() };
    assert_eq!(interpret(&out), want, "rendered {out:?}");
}

#[test]
fn rgb_background_with_bold_keeps_exact_value() {
    let style = Style::new()
        .bg_color(Some(Color::Rgb(RgbColor(1, 2, 3))))
        .effects(Effects::BOLD);
    let out = render(style);
    let want = Seen { bg: Some(Bg::Rgb(1, 2, 3)), bold: true, ..Default::default() };
    assert_eq!(interpret(&out), want, "rendered {out:?}");
}

/// Control: the same styles with a foreground set render correctly, so the interpreter above is sound.
#[test]
fn control_with_foreground_is_fine() {
    let style = Style::new()
        .fg_color(Some(Color::Ansi(AnsiColor::Red)))
        .bg_color(Some(Color::Rgb(RgbColor(1, 2, 3))))
        .effects(Effects::BOLD);
    let out = render(style);
    assert_eq!(out, "\x1b[31;48;2;1;2;3;1mx\x1b[0m");
}
