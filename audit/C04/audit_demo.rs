// C04 audit reproducer: the parser panics on untrusted input when it is used with the public
// `AsciiParser` character accumulator (which is also `DefaultCharAccumulator`, i.e. what
// `Parser::new()` gives, when the crate is built without the default `utf8` feature).
//
// Run (fails on the current code):
//   cd /tmp/mut/C04h/crates/anstyle-parse && \
//   CARGO_TARGET_DIR=/tmp/mut/C04h/target cargo test --offline --test audit_demo
// Same defect through `Parser::new()`:
//   cd /tmp/mut/C04h/crates/anstyle-parse && \
//   CARGO_TARGET_DIR=/tmp/mut/C04h/target cargo test --offline --no-default-features --test audit_demo
//
// Any byte 0xC2..=0xF4 arriving in the ground state takes the `BeginUtf8` action, which calls
// `AsciiParser::add`, whose body is `unreachable!("multi-byte UTF8 characters are unsupported")`.

use anstyle_parse::{AsciiParser, Parser, Perform};

struct Sink;
impl Perform for Sink {}

fn panics_on(input: &[u8]) -> bool {
    let input = input.to_vec();
    std::panic::catch_unwind(move || {
        let mut parser = Parser::<AsciiParser>::default();
        let mut sink = Sink;
        for byte in input {
            parser.advance(&mut sink, byte);
        }
    })
    .is_err()
}

#[test]
fn ascii_parser_never_panics_on_single_bytes() {
    let offending: Vec<u8> = (0..=255u8).filter(|b| panics_on(&[*b])).collect();
    assert!(
        offending.is_empty(),
        "Parser::<AsciiParser> panicked on {} single-byte inputs: {:#04x?}",
        offending.len(),
        offending
    );
}

#[test]
fn ascii_parser_never_panics_on_plain_utf8_text() {
    // ordinary terminal output: styled text holding one non-ASCII character
    let input = "\x1b[1mcaf\u{e9}\x1b[0m\n".as_bytes();
    assert!(!panics_on(input), "Parser::<AsciiParser> panicked on {input:?}");
}

#[cfg(not(feature = "utf8"))]
#[test]
fn default_parser_without_utf8_feature_never_panics() {
    let r = std::panic::catch_unwind(|| {
        let mut parser = Parser::<anstyle_parse::DefaultCharAccumulator>::new();
        let mut sink = Sink;
        for byte in "\u{e9}".bytes() {
            parser.advance(&mut sink, byte);
        }
    });
    assert!(r.is_ok(), "Parser::new() (no `utf8` feature) panicked on \"\\u{{e9}}\"");
}
