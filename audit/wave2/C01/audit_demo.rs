// C01 audit reproducer: `Display for StrippedStr` applies width / precision / fill to every
// printable piece separately instead of to the visible text (or not at all).
//
// Run:
//   CARGO_TARGET_DIR=/tmp/mut/C01i/target cargo test --offline -p anstream --test audit_demo
//
// Fails on the current code; passes when `StrippedStr::fmt` either ignores the format flags
// (writes the pieces with `f.write_str`, as `Style::render_reset` does since d8b1da7) or applies
// them once to the whole visible text (`f.pad(&self.to_string())`).

// visible text of INPUT worked out by hand: the two CSI `m` sequences are dropped, the six letters
// are kept
const INPUT: &str = "ab\x1b[1mcd\x1b[0mef";
const VISIBLE: &str = "abcdef";

/// The two behaviours that keep the visible text in one piece
fn acceptable(actual: &str, padded_whole: &str) -> bool {
    actual == VISIBLE || actual == padded_whole
}

#[test]
fn unflagged_display_is_the_visible_text() {
    // sanity: this one passes today
    assert_eq!(format!("{}", anstream::adapter::strip_str(INPUT)), VISIBLE);
    assert_eq!(anstream::adapter::strip_str(INPUT).to_string(), VISIBLE);
}

#[test]
fn width_does_not_insert_padding_inside_the_visible_text() {
    let actual = format!("{:8}", anstream::adapter::strip_str(INPUT));
    // today: "ab      cd      ef      "
    assert!(
        acceptable(&actual, "abcdef  "),
        "visible text {VISIBLE:?} came out as {actual:?}"
    );
}

#[test]
fn right_alignment_and_fill_do_not_split_the_visible_text() {
    let actual = format!("{:*>8}", anstream::adapter::strip_str(INPUT));
    // today: "******ab******cd******ef"
    assert!(
        acceptable(&actual, "**abcdef"),
        "visible text {VISIBLE:?} came out as {actual:?}"
    );
}

#[test]
fn precision_does_not_drop_characters_from_the_middle() {
    let actual = format!("{:.1}", anstream::adapter::strip_str(INPUT));
    // today: "ace" - neither the visible text nor its first character
    assert!(
        acceptable(&actual, "a"),
        "visible text {VISIBLE:?} came out as {actual:?}"
    );
}

#[test]
fn flagged_display_never_depends_on_where_the_escape_sequences_are() {
    // Two inputs with the same visible text must display the same under the same format spec
    let plain = format!("{:>8.5}", anstream::adapter::strip_str(VISIBLE));
    let styled = format!("{:>8.5}", anstream::adapter::strip_str(INPUT));
    // today: "   abcde" vs "      ab      cd      ef"
    assert_eq!(plain, styled);
}
