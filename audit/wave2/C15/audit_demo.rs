// Audit reproducer for C15 (roff rendering preserves text, colours and font per segment).
//
// Run with:
//   CARGO_TARGET_DIR=/tmp/mut/C15i/target cargo test --offline -p anstyle-roff --test audit_demo
//
// Finding: SGR parameters are compared as literal strings ("1", "31", ...) by the sequence
// reader behind `anstyle_roff::to_roff` (cansi 2.2.1, pinned in Cargo.lock), so a parameter
// written with a leading zero - `ESC[01;34m`, the spelling used by `ls --color` (dircolors),
// `grep --color` and GCC diagnostics - is silently dropped.  ECMA-48 5.4.2 says leading zeros
// in a parameter are not significant, and every other reader in this workspace (anstyle-parse,
// hence anstream / anstyle-svg) treats `01` as `1`.
//
// These tests FAIL on the current code and pass once parameters are read as numbers.
#![allow(missing_docs)]

const NAMES: [&str; 8] = [
    "black", "red", "green", "yellow", "blue", "magenta", "cyan", "white",
];

/// What C15 requires for one segment, written out by hand (no call into the code under test).
fn expected(fg: &str, bg: &str, font: char, text: &str) -> String {
    let body = match font {
        'B' => format!("\\fB{text}\\fR"),
        'I' => format!("\\fI{text}\\fR"),
        _ => text.to_owned(),
    };
    format!(".gcolor {fg}\n.fcolor {bg}\n{body}\n")
}

#[test]
fn bold_blue_as_written_by_ls() {
    // `ls --color` default for directories: di=01;34
    let doc = anstyle_roff::to_roff("\u{1b}[01;34mdir\u{1b}[0m");
    assert_eq!(doc.to_roff(), expected("blue", "default", 'B', "dir"));
}

#[test]
fn italic_with_leading_zero() {
    let doc = anstyle_roff::to_roff("\u{1b}[0;03mword");
    assert_eq!(doc.to_roff(), expected("default", "default", 'I', "word"));
}

#[test]
fn padded_parameters_mean_the_same_as_unpadded_ones() {
    let mut failures = Vec::new();
    for pad in 1..=3usize {
        let z = "0".repeat(pad);
        // effects
        for (code, font) in [(1u32, 'B'), (3, 'I'), (4, 'R'), (7, 'R'), (9, 'R')] {
            let input = format!("\u{1b}[0;{z}{code}mx");
            let got = anstyle_roff::to_roff(&input).to_roff();
            let exp = expected("default", "default", font, "x");
            if got != exp {
                failures.push(format!("{input:?}: got {got:?}, expected {exp:?}"));
            }
        }
        // 16-colour foregrounds and backgrounds
        for i in 0..8u32 {
            for (base, is_fg, bright) in [(30u32, true, false), (90, true, true), (40, false, false), (100, false, true)] {
                let input = format!("\u{1b}[0;{z}{}mx", base + i);
                let got = anstyle_roff::to_roff(&input).to_roff();
                let name = NAMES[i as usize];
                let exp = if is_fg {
                    expected(name, "default", if bright { 'B' } else { 'R' }, "x")
                } else {
                    expected("default", name, 'R', "x")
                };
                if got != exp {
                    failures.push(format!("{input:?}: got {got:?}, expected {exp:?}"));
                }
            }
        }
    }
    assert!(
        failures.is_empty(),
        "{} zero-padded spellings lose their meaning, e.g.\n{}",
        failures.len(),
        failures.iter().take(6).cloned().collect::<Vec<_>>().join("\n")
    );
}
