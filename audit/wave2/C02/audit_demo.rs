// C02i reproducer: `Params` (the argument of csi_dispatch / hook) compares UNEQUAL to a `Params`
// with exactly the same parameters and sub-parameters, depending on what the parser saw earlier.
// The derived `PartialEq` also compares the unused tail of the fixed-size arrays, which
// `Params::clear` leaves filled with the values of earlier sequences.
//
// Run (fails on the current code, passes once `Params: PartialEq` only looks at the live part):
//   cd /tmp/mut/C02i/crates/anstyle-parse && \
//   CARGO_TARGET_DIR=/tmp/mut/C02i/target cargo test --offline --test audit_demo
// (same result with `--features core`, `--no-default-features`)

use anstyle_parse::{DefaultCharAccumulator, Params, Parser, Perform};

#[derive(Default)]
struct Keep(Vec<Params>);

impl Perform for Keep {
    fn csi_dispatch(&mut self, params: &Params, _i: &[u8], _ignore: bool, _action: u8) {
        self.0.push(params.clone());
    }
    fn hook(&mut self, params: &Params, _i: &[u8], _ignore: bool, _action: u8) {
        self.0.push(params.clone());
    }
}

fn run(stream: &[u8]) -> Vec<Params> {
    let mut parser = Parser::<DefaultCharAccumulator>::new();
    let mut keep = Keep::default();
    for b in stream {
        parser.advance(&mut keep, *b);
    }
    keep.0
}

fn content(p: &Params) -> Vec<Vec<u16>> {
    p.iter().map(|g| g.to_vec()).collect()
}

/// "... replayed after an arbitrary prefix history followed by CAN ... parsed as by a fresh parser"
#[test]
fn argument_after_history_and_can_equals_fresh_parser_argument() {
    let with_history = run(b"\x1b[5;6m\x18\x1b[7m");
    let fresh = run(b"\x1b[7m");
    let a = with_history.last().unwrap();
    let b = fresh.last().unwrap();

    // every observable of the two arguments is identical ...
    assert_eq!(content(a), vec![vec![7u16]]);
    assert_eq!(content(a), content(b));
    assert_eq!(a.len(), b.len());
    assert_eq!(format!("{a:?}"), format!("{b:?}"));
    // ... so the callbacks were invoked "with the same arguments"; the type's own equality disagrees
    assert!(a == b, "Params {a:?} != Params {b:?}: equality depends on parser history");
}

/// Same thing inside one stream on one parser, CSI and DCS
#[test]
fn same_sequence_twice_in_one_stream_gives_equal_arguments() {
    let got = run(b"\x1b[7m\x1b[1;2:3;4m\x1b[7m");
    assert_eq!(content(&got[0]), content(&got[2]));
    assert!(got[0] == got[2], "CSI 7 m dispatched twice: {:?} != {:?}", got[0], got[2]);

    let got = run(b"\x1bP1q\x1b\\\x1bP9;8;7q\x1b\\\x1bP1q\x1b\\");
    assert_eq!(content(&got[0]), content(&got[2]));
    assert!(got[0] == got[2], "DCS 1 q hooked twice: {:?} != {:?}", got[0], got[2]);
}
