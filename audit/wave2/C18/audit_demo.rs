// Audit reproducer for C18 (legacy-console stream hands over each text run once, never escape
// bytes as text).
//
// Run (from the workspace root /tmp/mut/C18i):
//
//   CARGO_TARGET_DIR=/tmp/mut/C18i/target cargo test --offline -p anstream --test audit_demo
//
// `anstream::WinconStream` (crates/anstream/src/wincon.rs) is only built on Windows, so its
// platform independent source is compiled into this test from the working tree with `#[path]`.
// The few items it needs from its surroundings (`anstyle_wincon::WinconStream`,
// `crate::stream::{AsLockedWrite, IsTerminal}`) are provided here; the run extractor
// (`anstream::adapter::WinconBytes`) and the escape parser (`anstyle_parse`) are the real ones.
//
// Tests named `control_*` pass on the current code (they show that the harness and the
// expectation are sound), tests named `violation_*` FAIL on the current code.
#![allow(dead_code)]
#![allow(clippy::all)]

// `wincon.rs` names the console trait `anstyle_wincon::WinconStream`; that crate is a
// Windows-only dependency of anstream, so this test crate stands in for it.
extern crate self as anstyle_wincon;

use std::io::Write as _;

type Color = Option<anstyle::AnsiColor>;

/// Same signature as `anstyle_wincon::WinconStream`
pub trait WinconStream {
    fn write_colored(&mut self, fg: Color, bg: Color, data: &[u8]) -> std::io::Result<usize>;
}

impl<T: WinconStream + ?Sized> WinconStream for &mut T {
    fn write_colored(&mut self, fg: Color, bg: Color, data: &[u8]) -> std::io::Result<usize> {
        (**self).write_colored(fg, bg, data)
    }
}

macro_rules! plain_console {
    ($($t:ty),*) => {$(
        impl WinconStream for $t {
            fn write_colored(&mut self, _fg: Color, _bg: Color, data: &[u8]) -> std::io::Result<usize> {
                std::io::Write::write(self, data)
            }
        }
    )*};
}
// Needed only to make `wincon.rs` (its `lock()` impls and its own unit tests) compile
plain_console!(
    Vec<u8>,
    std::io::Stdout,
    std::io::Stderr,
    std::io::StdoutLock<'static>,
    std::io::StderrLock<'static>
);

/// The recording console writer
#[derive(Default, Debug)]
pub struct Recorder {
    calls: Vec<(Color, Color, Vec<u8>)>,
}

impl WinconStream for Recorder {
    fn write_colored(&mut self, fg: Color, bg: Color, data: &[u8]) -> std::io::Result<usize> {
        self.calls.push((fg, bg, data.to_vec()));
        Ok(data.len())
    }
}

impl std::io::Write for Recorder {
    fn write(&mut self, _buf: &[u8]) -> std::io::Result<usize> {
        panic!("the stream must go through write_colored");
    }
    fn flush(&mut self) -> std::io::Result<()> {
        Ok(())
    }
}

pub mod adapter {
    pub use anstream::adapter::WinconBytes;
}

pub mod stream {
    pub trait IsTerminal {
        fn is_terminal(&self) -> bool;
    }

    pub trait AsLockedWrite {
        type Write<'w>: crate::WinconStream + std::io::Write + 'w
        where
            Self: 'w;
        fn as_locked_write(&mut self) -> Self::Write<'_>;
    }

    macro_rules! by_ref {
        ($($t:ty),*) => {$(
            impl AsLockedWrite for $t {
                type Write<'w> = &'w mut Self;
                fn as_locked_write(&mut self) -> Self::Write<'_> {
                    self
                }
            }
        )*};
    }
    by_ref!(
        crate::Recorder,
        Vec<u8>,
        std::io::StdoutLock<'static>,
        std::io::StderrLock<'static>
    );
}

#[path = "../src/fmt.rs"]
mod fmt;
#[path = "../src/wincon.rs"]
mod wincon;

#[derive(Copy, Clone, Debug)]
enum Route {
    WriteAll,
    Write,
    WriteFmt,
}

/// Feed `input` in chunks of `chunk` bytes (0 = at once); returns the text the console received,
/// and the calls
fn feed(input: &str, chunk: usize, route: Route) -> (String, Vec<(Color, Color, Vec<u8>)>) {
    let mut stream = wincon::WinconStream::new(Recorder::default());
    let bytes = input.as_bytes();
    let chunks: Vec<&[u8]> = if chunk == 0 {
        vec![bytes]
    } else {
        bytes.chunks(chunk).collect()
    };
    for c in chunks {
        match route {
            Route::WriteAll => stream.write_all(c).unwrap(),
            Route::Write => assert_eq!(stream.write(c).unwrap(), c.len()),
            Route::WriteFmt => match std::str::from_utf8(c) {
                Ok(s) => write!(stream, "{s}").unwrap(),
                Err(_) => stream.write_all(c).unwrap(),
            },
        }
    }
    let calls = stream.into_inner().calls;
    let text: Vec<u8> = calls.iter().flat_map(|c| c.2.iter().copied()).collect();
    (String::from_utf8(text).unwrap(), calls)
}

const ROUTES: [Route; 3] = [Route::WriteAll, Route::Write, Route::WriteFmt];

/// Control strings: DCS, SOS, PM, APC (ECMA-48 8.3.27, 8.3.143, 8.3.94, 8.3.2), all closed by ST
const STRING_INTRODUCERS: [(&str, &str); 4] = [
    ("DCS", "\x1bP"),
    ("SOS", "\x1bX"),
    ("PM", "\x1b^"),
    ("APC", "\x1b_"),
];
const ST: &str = "\x1b\\";

/// The harness works: colours are reduced as the statement says and ASCII-only control strings
/// are not handed over.
#[test]
fn control_harness_is_sound() {
    for route in ROUTES {
        for chunk in [0, 1, 2, 3] {
            let (text, calls) = feed(
                "A\x1b[38;5;9;48;5;4mB\x1b[38;5;200mC\x1b[0mD",
                chunk,
                route,
            );
            assert_eq!(text, "ABCD");
            let of = |ch: u8| {
                calls
                    .iter()
                    .find(|c| c.2.contains(&ch))
                    .map(|c| (c.0, c.1))
                    .unwrap()
            };
            assert_eq!(of(b'A'), (None, None));
            assert_eq!(
                of(b'B'),
                (
                    Some(anstyle::AnsiColor::BrightRed),
                    Some(anstyle::AnsiColor::Blue)
                )
            );
            assert_eq!(of(b'C'), (None, Some(anstyle::AnsiColor::Blue)));
            assert_eq!(of(b'D'), (None, None));

            for (name, intro) in STRING_INTRODUCERS {
                let input = format!("A{intro}q payload text{ST}B");
                let (text, _) = feed(&input, chunk, route);
                assert_eq!(text, "AB", "{name} {input:?} chunk={chunk} {route:?}");
            }
            // An OSC string with the very same characters is handled correctly
            for ch in ["\u{201c}", "\u{dc}", "\u{672c}", "\u{1f61c}"] {
                let input = format!("A\x1b]0;title {ch}quoted{ST}B");
                let (text, _) = feed(&input, chunk, route);
                assert_eq!(text, "AB", "OSC {input:?} chunk={chunk} {route:?}");
                // and the characters are ordinary text outside of a control string
                let input = format!("A{ch}B");
                let (text, _) = feed(&input, chunk, route);
                assert_eq!(text, input);
            }
        }
    }
}

/// VIOLATION 1: "... and never passes an escape byte as text."
///
/// The payload of a DCS / SOS / PM / APC control string belongs to the escape sequence up to the
/// string terminator `ESC \`.  When the payload holds a UTF-8 character one of whose continuation
/// bytes is 0x9C (U+201C LEFT DOUBLE QUOTATION MARK = E2 80 9C, U+00DC U-umlaut = C3 9C,
/// U+672C "hon" of "Nihon" = E6 9C AC, U+1F61C = F0 9F 98 9C, ...) the parser takes that byte for
/// an 8-bit ST, leaves the string, and the rest of the payload is handed to the console as text.
#[test]
fn violation_string_payload_after_0x9c_continuation_is_handed_over_as_text() {
    let mut bad = Vec::new();
    for (name, intro) in STRING_INTRODUCERS {
        for ch in ["\u{201c}", "\u{dc}", "\u{672c}", "\u{1f61c}"] {
            // e.g. GNU screen hardstatus: ESC _ <title> ESC \
            let input = format!("A{intro}title {ch}quoted{ST}B");
            for route in ROUTES {
                for chunk in [0, 1, 2, 3] {
                    let (text, _) = feed(&input, chunk, route);
                    // Independent expectation: by construction only "A" and "B" are outside of the
                    // control string
                    if text != "AB" {
                        bad.push(format!(
                            "{name} {input:?} chunk={chunk} {route:?}: console got {text:?}"
                        ));
                    }
                }
            }
        }
    }
    assert!(
        bad.is_empty(),
        "{} of 192 feeds leaked control-string bytes as text, e.g.\n{}",
        bad.len(),
        bad[..bad.len().min(8)].join("\n")
    );
}

/// VIOLATION 2: "passes every run of *visible* text" / doc of `WinconStream`: "Only pass
/// printable data to the inner `Write`".
///
/// DEL (0x7F) is a control character.  The sibling `StripStream` / `strip_str` / `strip_bytes`
/// drop it on purpose ("we expect to be working in UTF-8 systems and not ISO Latin-1, making it
/// DEL and non-printable", unit tests `test_strip_str_del`, `test_strip_byte_del`), every other
/// C0 control except white space is dropped by the console stream too, but DEL is handed to the
/// console writer as text.
#[test]
fn violation_del_is_handed_over_as_text() {
    // control: the sibling adapter, same parser, same input
    assert_eq!(anstream::adapter::strip_str("a\x7fb").to_string(), "ab");
    assert_eq!(anstream::adapter::strip_bytes(b"a\x7fb").into_vec(), b"ab");
    // control: the other non-whitespace controls are not text for the console stream either
    for c in ["\x00", "\x07", "\x08", "\x0b", "\x0e", "\x0f", "\x1f"] {
        let (text, _) = feed(&format!("a{c}b"), 0, Route::WriteAll);
        assert_eq!(text, "ab", "{c:?}");
    }

    let mut bad = Vec::new();
    for input in ["a\x7fb", "\x7f", "\x1b[31ma\x7f\x1b[0mb", "a\x7f\x7f\n"] {
        let want: String = input
            .replace("\x1b[31m", "")
            .replace("\x1b[0m", "")
            .replace('\x7f', "");
        for route in ROUTES {
            for chunk in [0, 1] {
                let (text, _) = feed(input, chunk, route);
                if text != want {
                    bad.push(format!(
                        "{input:?} chunk={chunk} {route:?}: console got {text:?}, visible text is {want:?}"
                    ));
                }
            }
        }
    }
    assert!(
        bad.is_empty(),
        "{} feeds handed DEL to the console as text, e.g.\n{}",
        bad.len(),
        bad[..bad.len().min(8)].join("\n")
    );
}
