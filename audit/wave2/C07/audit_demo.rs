// Audit reproducer for C07 (styled-run extraction follows standard SGR semantics).
//
// Run with:
//   CARGO_TARGET_DIR=/tmp/mut/C07i/target cargo test --offline -p anstream --test audit_demo
//
// Both tests FAIL on the code as it stands; they pass once
//  (V1) an extended-colour group in the ':' spelling is treated as self-contained even when its
//       colour-model selector is not 2 or 5 (ITU T.416: 0 implementation defined, 1 transparent,
//       3 CMY, 4 CMYK - none of them has a representation in `anstyle::Color`), and
//  (V2) `38:2:<cs>:r:g:b` is also read correctly when the optional trailing T.416 sub-parameters
//       (`:<unused>:<tolerance>:<tolerance colour space>`) are present.
//
// The expected values are written down by hand from ECMA-48 / ITU T.416 / xterm ctlseqs, they are
// not computed with the code under test.

use anstyle::{Ansi256Color, AnsiColor, Color, Effects, RgbColor, Style};

fn runs(input: &str) -> Vec<(Style, String)> {
    let mut state = anstream::adapter::WinconBytes::new();
    state.extract_next(input.as_bytes()).collect()
}

fn one_run(input: &str) -> Style {
    let runs = runs(input);
    assert_eq!(runs.len(), 1, "{input:?} -> {runs:?}");
    assert_eq!(runs[0].1, "X", "{input:?} -> {runs:?}");
    runs[0].0
}

/// V1: a colon group whose colour model has no representation must change nothing - in particular
/// it must not change how the *following* parameters of the same sequence are read.
#[test]
fn v1_unrepresentable_colour_model_group_changes_nothing() {
    let bold = Style::new().effects(Effects::BOLD);
    let red = Style::new().fg_color(Some(Color::Ansi(AnsiColor::Red)));

    // sent as two sequences the code gets it right ...
    assert_eq!(one_run("\x1b[38:1m\x1b[1mX"), bold, "separate sequences");
    // ... "attributes combined in one sequence have the same effect as the same attributes sent
    // in separate sequences"
    assert_eq!(one_run("\x1b[38:1;1mX"), bold, "38:1 (transparent) then bold");
    assert_eq!(one_run("\x1b[48:3:0:10:20:30;31mX"), red, "48:3:... (CMY) then red");
    assert_eq!(one_run("\x1b[58:0;31mX"), red, "58:0 (implementation defined) then red");

    // the parameters after the group are even turned into a colour nobody asked for
    let expected = Style::new().effects(
        Effects::DIMMED
            | Effects::UNDERLINE
            | Effects::INVERT
            | Effects::HIDDEN
            | Effects::STRIKETHROUGH,
    );
    assert_eq!(
        one_run("\x1b[38:4:0:1:2:3:4;2;4;7;8;9mX"),
        expected,
        "38:4:... (CMYK) then dim, underline, invert, hidden, strikethrough"
    );
    // 256-colour spelling of the same accident: `;5;1` after the group is blink + bold, never a colour
    let style = one_run("\x1b[38:3:0:1:2:3;5;1mX");
    assert_eq!(style.get_fg_color(), None, "no colour was selected: {style:?}");
    assert!(style.get_effects().contains(Effects::BOLD), "bold was selected: {style:?}");
    let _ = Ansi256Color(1);
}

/// V2: ITU T.416 direct colour `38:2:<cs>:<r>:<g>:<b>[:<unused>:<tolerance>:<tolerance cs>]`.
/// With six *or more* sub-parameters the third one is the colour-space id and r, g, b follow it
/// (xterm, kitty, VTE, foot all read it that way).
#[test]
fn v2_t416_rgb_with_trailing_subparameters() {
    let fg = |r, g, b| Style::new().fg_color(Some(Color::Rgb(RgbColor(r, g, b))));
    let bg = |r, g, b| Style::new().bg_color(Some(Color::Rgb(RgbColor(r, g, b))));
    let ul = |r, g, b| Style::new().underline_color(Some(Color::Rgb(RgbColor(r, g, b))));

    // the six-element form is fine
    assert_eq!(one_run("\x1b[38:2::255:0:0mX"), fg(255, 0, 0));
    // the same colour with an (empty) unused slot and a zero tolerance
    assert_eq!(one_run("\x1b[38:2::255:0:0::0mX"), fg(255, 0, 0));
    assert_eq!(one_run("\x1b[38:2::255:0:0:mX"), fg(255, 0, 0));
    assert_eq!(one_run("\x1b[48:2:1:10:20:30:0:5:0mX"), bg(10, 20, 30));
    assert_eq!(one_run("\x1b[58:2::1:2:3::0:0mX"), ul(1, 2, 3));
}
