// Run with:
//   CARGO_TARGET_DIR=/tmp/mut/C14i/target cargo test --offline -p anstyle-svg --test audit_demo
//
// C14: "the text recovered from its foreground spans, line by line, equals the visible text".
//
// The content of a DCS / SOS / PM / APC control string is not visible text; the string ends at
// ST (`ESC \`).  The parser table (crates/anstyle-parse/src/state/codegen.rs: DcsPassthrough,
// DcsIgnore, SosPmApcString `0x9c => (Ground, Nop)`) still treats a raw byte 0x9C as an 8-bit ST,
// although in a UTF-8 stream that byte is only ever the continuation byte of a character
// (`Ü` = C3 9C, `“` = E2 80 9C, `东` = E4 B8 9C, every 64th non-ASCII character).  The rest of
// the string is then rendered as visible text.

/// Text of the foreground spans: everything that is not markup inside `<text>`, with the
/// indentation / line structure removed (inputs here are single-line, without blanks).
fn recovered_text(svg: &str) -> String {
    let start = svg.find("<text").expect("text element");
    let end = svg.find("</text>").expect("text element end");
    let mut out = String::new();
    let mut in_tag = false;
    for c in svg[start..end].chars() {
        match c {
            '<' => in_tag = true,
            '>' => in_tag = false,
            _ if in_tag => {}
            '\n' | ' ' => {}
            c => out.push(c),
        }
    }
    out
}

fn render(input: &str) -> String {
    recovered_text(&anstyle_svg::Term::new().render_svg(input))
}

#[test]
fn control_string_with_ascii_payload_is_hidden() {
    // baseline: passes
    for intro in ["P", "X", "^", "_", "P1;2q"] {
        let input = format!("a\u{1b}{intro}xUy\u{1b}\\b");
        assert_eq!(render(&input), "ab", "{input:?}");
    }
    // OSC is fine with any payload
    assert_eq!(render("a\u{1b}]0;x\u{dc}y\u{1b}\\b"), "ab");
}

#[test]
fn control_string_with_non_ascii_payload_is_hidden() {
    // U+00DC, U+201C, U+4E1C, U+05DC: UTF-8 encodings that contain the byte 0x9C
    for ch in ['\u{dc}', '\u{201c}', '\u{4e1c}', '\u{5dc}'] {
        for intro in ["P", "X", "^", "_", "P1;2q"] {
            let input = format!("a\u{1b}{intro}x{ch}y\u{1b}\\b");
            assert_eq!(render(&input), "ab", "{input:?}");
        }
    }
}

#[test]
fn style_after_control_string_applies_to_the_right_text() {
    // the leaked tail also takes part in styling: here `y` is drawn green although it is not text
    let svg = anstyle_svg::Term::new().render_svg("\u{1b}[32ma\u{1b}_x\u{dc}y\u{1b}\\b");
    assert!(svg.contains(r#"<tspan class="fg-green">ab</tspan>"#), "{svg}");
}
