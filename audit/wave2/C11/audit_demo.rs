// Run: CARGO_TARGET_DIR=/tmp/mut/C11i/target cargo test --offline -p anstyle-git --test audit_demo
//
// C11: "... and returns the style those words denote" for git's '#rgb' colour word.
// git (Documentation/config.txt, since 2.46; color.c get_hex_color): "12-bit RGB values like
// `#f1b`, which is equivalent to the 24-bit color `#ff11bb`" - each digit is doubled, as in CSS.
// anstyle-git instead takes each digit as the whole channel value (0..=15), so "#fff" is the
// near-black rgb(15,15,15) instead of white.
use anstyle::{RgbColor, Style};

fn fg(r: u8, g: u8, b: u8) -> Style {
    Style::new().fg_color(Some(RgbColor(r, g, b).into()))
}

#[test]
fn git_doc_example_f1b_is_ff11bb() {
    assert_eq!(anstyle_git::parse("#f1b").unwrap(), fg(0xff, 0x11, 0xbb));
}

#[test]
fn fff_is_white() {
    assert_eq!(anstyle_git::parse("#fff").unwrap(), fg(255, 255, 255));
    assert_eq!(anstyle_git::parse("#FFF").unwrap(), fg(255, 255, 255));
}

#[test]
fn every_rgb_word_doubles_its_digits_fg_and_bg() {
    let mut wrong = Vec::new();
    for n in 0..4096u32 {
        let (r, g, b) = ((n >> 8) as u8 & 15, (n >> 4) as u8 & 15, n as u8 & 15);
        let expected = Style::new()
            .fg_color(Some(RgbColor(r * 17, g * 17, b * 17).into()))
            .bg_color(Some(RgbColor(r * 17, g * 17, b * 17).into()));
        let word = format!("#{n:03x}");
        let actual = anstyle_git::parse(&format!("{word} {word}")).unwrap();
        if actual != expected {
            wrong.push(word);
        }
    }
    assert!(wrong.is_empty(), "{} of 4096 '#rgb' words denote the wrong colour, e.g. {:?}", wrong.len(), &wrong[..wrong.len().min(5)]);
}
