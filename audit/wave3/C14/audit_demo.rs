//! Audit C14j reproducer: a carriage return that is NOT followed by a newline is written into the
//! SVG as a literal U+000D.  XML 1.0 (section 2.11, end-of-line handling) obliges every XML
//! processor to turn a literal CR (and a literal CR LF pair) into a single LF before parsing, so
//! the text an XML parser recovers from the foreground spans is not the visible text: `10%\r20%`
//! comes back as `10%\n20%`.  A CR is an XML 1.0 `Char` (#xD), it is representable as `&#13;`.
//!
//! Run with:
//!   CARGO_TARGET_DIR=/tmp/mut/C14j/target cargo test --offline -p anstyle-svg --test audit_demo
//!
//! The test reads the SVG the way a conforming XML processor does (line-end normalisation first,
//! then entity / character references), so it passes as soon as the CR is written as a character
//! reference (`&#13;` / `&#xD;`).

/// XML 1.0 section 2.11: `\r\n` and any `\r` not followed by `\n` become `\n`, before parsing.
fn xml_normalize_line_ends(document: &str) -> String {
    document.replace("\r\n", "\n").replace('\r', "\n")
}

/// Decode the predefined entities and numeric character references of XML character data.
fn xml_decode(chardata: &str) -> String {
    let mut out = String::new();
    let mut rest = chardata;
    while let Some(start) = rest.find('&') {
        out.push_str(&rest[..start]);
        rest = &rest[start..];
        let end = rest.find(';').expect("reference is terminated");
        let name = &rest[1..end];
        let c = match name {
            "amp" => '&',
            "lt" => '<',
            "gt" => '>',
            "quot" => '"',
            "apos" => '\'',
            _ => {
                let code = if let Some(hex) = name.strip_prefix("#x") {
                    u32::from_str_radix(hex, 16).expect("hex character reference")
                } else {
                    name.strip_prefix('#')
                        .expect("character reference")
                        .parse::<u32>()
                        .expect("decimal character reference")
                };
                char::from_u32(code).expect("valid character")
            }
        };
        out.push(c);
        rest = &rest[end + 1..];
    }
    out.push_str(rest);
    out
}

/// The text of the foreground spans, one entry per line (the last outer `<tspan>` of each `y`).
fn foreground_lines(svg: &str) -> Vec<String> {
    let svg = xml_normalize_line_ends(svg);
    let text_start = svg.find("<text ").expect("text element");
    let text_end = svg.rfind("</text>").expect("text element is closed");
    let body = &svg[text_start..text_end];

    let mut lines: Vec<(String, String)> = Vec::new();
    for outer in body.split("    <tspan x=\"").skip(1) {
        let y_start = outer.find("y=\"").expect("y attribute") + 3;
        let y_end = y_start + outer[y_start..].find('"').expect("y attribute is closed");
        let y = outer[y_start..y_end].to_owned();
        let mut recovered = String::new();
        let mut rest = &outer[outer.find('>').expect("outer start tag") + 1..];
        while let Some(open) = rest.find("<tspan") {
            let inner = &rest[open..];
            let content_start = inner.find('>').expect("inner start tag") + 1;
            let content_end = inner.find("</tspan>").expect("inner end tag");
            recovered.push_str(&xml_decode(&inner[content_start..content_end]));
            rest = &inner[content_end + "</tspan>".len()..];
        }
        match lines.last_mut() {
            // background layer and foreground layer share `y`, the foreground one comes last
            Some((last_y, last)) if *last_y == y => *last = recovered,
            _ => lines.push((y, recovered)),
        }
    }
    lines.into_iter().map(|(_, text)| text).collect()
}

/// "the visible text split at newlines (a carriage return before a newline dropped)"
fn expected_lines(visible: &str) -> Vec<String> {
    let mut lines: Vec<String> = visible.split('\n').map(|l| l.to_owned()).collect();
    let last = lines.len() - 1;
    for line in &mut lines[..last] {
        if line.ends_with('\r') {
            line.pop();
        }
    }
    lines
}

#[track_caller]
fn assert_text_preserved(ansi: &str, visible: &str) {
    let svg = anstyle_svg::Term::new().render_svg(ansi);
    assert_eq!(
        foreground_lines(&svg),
        expected_lines(visible),
        "input {ansi:?}"
    );
}

#[test]
fn control_crlf_is_still_one_line_break() {
    // sanity check of the harness: these hold on the current code
    assert_text_preserved("a\r\nb", "a\r\nb");
    assert_text_preserved("\x1b[31ma\r\x1b[0m\nb", "a\r\nb");
    assert_text_preserved("<&>\n", "<&>\n");
}

#[test]
fn progress_line_keeps_its_carriage_return() {
    // what `cargo`, `curl`, `pip`, ... print while they update a progress line
    assert_text_preserved(
        "\x1b[32mDownloading\x1b[0m 10%\r\x1b[32mDownloading\x1b[0m 20%\n",
        "Downloading 10%\rDownloading 20%\n",
    );
}

#[test]
fn lone_carriage_return_inside_a_line() {
    assert_text_preserved("a\rb", "a\rb");
}

#[test]
fn carriage_return_at_the_end_of_the_text() {
    assert_text_preserved("a\r", "a\r");
}

#[test]
fn only_one_carriage_return_belongs_to_the_line_break() {
    // `\r\r\n`: the second CR is dropped with the newline, the first one is visible text
    assert_text_preserved("a\r\r\nb", "a\r\r\nb");
}
