// C07j audit reproducer: anstyle-roff's styled-run extraction (cansi based) only recognises
// `ESC [` sequences, so the payload of OSC sequences and of two-byte / charset ESC sequences
// is emitted as visible text.
//
// Run: CARGO_TARGET_DIR=/tmp/mut/C07j/target cargo test --offline -p anstyle-roff --test audit_demo
//
// Property clause: "the extractor yields the visible text in order ... non-SGR sequences and
// codes without a representation in the style type change nothing".

fn body(text: &str) -> String {
    // keep only the text lines of the roff document (drop the `.gcolor` / `.fcolor` requests)
    anstyle_roff::to_roff(text)
        .to_roff()
        .lines()
        .filter(|l| !l.starts_with('.'))
        .collect::<Vec<_>>()
        .join("\n")
}

#[test]
fn osc_title_is_not_visible_text() {
    // OSC 0 (set window title), BEL terminated: prints nothing on a terminal
    let with = body("\x1b[31mA\x1b]0;title\x07B\x1b[0m");
    let without = body("\x1b[31mAB\x1b[0m");
    assert_eq!(with, without);
}

#[test]
fn osc_hyperlink_is_not_visible_text() {
    // OSC 8 hyperlink, ST terminated: only "link" is visible
    let with = body("\x1b]8;;http://example.com\x1b\\link\x1b]8;;\x1b\\");
    let without = body("link");
    assert_eq!(with, without);
}

#[test]
fn charset_designation_is_not_visible_text() {
    // ESC ( B (designate US-ASCII as G0), emitted by `tput sgr0` on many terminals
    let with = body("\x1b[1mA\x1b(B\x1b[mB");
    let without = body("\x1b[1mA\x1b[mB");
    assert_eq!(with, without);
}
