//! G-FAULT: a scripted inner writer that records every call.

use serde::{Deserialize, Serialize};
use std::cell::RefCell;
use std::collections::VecDeque;
use std::io::{self, ErrorKind};
use std::rc::Rc;

#[derive(Clone, Copy, Debug, PartialEq, Eq, Hash, Serialize, Deserialize)]
pub enum Resp {
    /// accept at most this many bytes (0..=3)
    Accept(u8),
    All,
    Interrupted,
    WouldBlock,
    Other,
}

pub const ALL_RESPS: [Resp; 8] = [
    Resp::Accept(0),
    Resp::Accept(1),
    Resp::Accept(2),
    Resp::Accept(3),
    Resp::All,
    Resp::Interrupted,
    Resp::WouldBlock,
    Resp::Other,
];

impl Resp {
    pub fn error_kind(self) -> Option<ErrorKind> {
        match self {
            Resp::Interrupted => Some(ErrorKind::Interrupted),
            Resp::WouldBlock => Some(ErrorKind::WouldBlock),
            Resp::Other => Some(ErrorKind::Other),
            _ => None,
        }
    }
}

#[derive(Clone, Debug)]
pub struct Call {
    pub buf: Vec<u8>,
    pub resp: Result<usize, ErrorKind>,
}

#[derive(Default, Debug)]
pub struct Log {
    /// everything the writer accepted, in order
    pub accepted: Vec<u8>,
    pub calls: Vec<Call>,
    pub flushes: usize,
    /// number of calls answered with a short count or an error
    pub faults: usize,
}

/// how an injected error is represented inside `io::Error` (callers must only look at `kind()`)
#[derive(Clone, Copy, Debug, PartialEq, Eq)]
pub enum ErrRepr {
    /// `io::Error::new(kind, "injected")`
    Custom,
    /// `io::Error::from(kind)`
    Simple,
    /// `io::Error::from_raw_os_error(EINTR / EAGAIN)` - what files, pipes and terminals produce
    /// (kinds without a fitting errno fall back to `Simple`)
    Os,
}

impl ErrRepr {
    pub fn of(n: u8) -> ErrRepr {
        match n % 3 {
            0 => ErrRepr::Custom,
            1 => ErrRepr::Simple,
            _ => ErrRepr::Os,
        }
    }
    pub fn make(self, k: ErrorKind, what: &'static str) -> io::Error {
        match (self, k) {
            (ErrRepr::Custom, _) => io::Error::new(k, what),
            (ErrRepr::Os, ErrorKind::Interrupted) => io::Error::from_raw_os_error(4),
            (ErrRepr::Os, ErrorKind::WouldBlock) => io::Error::from_raw_os_error(11),
            (ErrRepr::Os, ErrorKind::BrokenPipe) => io::Error::from_raw_os_error(32),
            _ => io::Error::from(k),
        }
    }
}

pub struct Scripted {
    script: VecDeque<Resp>,
    pub log: Rc<RefCell<Log>>,
    pub flush_error: Option<ErrorKind>,
    pub repr: ErrRepr,
}

impl Scripted {
    pub fn new(script: &[Resp]) -> (Self, Rc<RefCell<Log>>) {
        let log = Rc::new(RefCell::new(Log::default()));
        (
            Scripted {
                script: script.iter().copied().collect(),
                log: log.clone(),
                flush_error: None,
                repr: ErrRepr::Custom,
            },
            log,
        )
    }
}

impl io::Write for Scripted {
    fn write(&mut self, buf: &[u8]) -> io::Result<usize> {
        let mut log = self.log.borrow_mut();
        if buf.is_empty() {
            log.calls.push(Call {
                buf: vec![],
                resp: Ok(0),
            });
            return Ok(0);
        }
        let r = self.script.pop_front().unwrap_or(Resp::All);
        let res = match r {
            Resp::Accept(n) => Ok((n as usize).min(buf.len())),
            Resp::All => Ok(buf.len()),
            other => Err(other.error_kind().unwrap()),
        };
        match res {
            Ok(n) => {
                log.accepted.extend_from_slice(&buf[..n]);
                if n < buf.len() {
                    log.faults += 1;
                }
            }
            Err(_) => log.faults += 1,
        }
        log.calls.push(Call {
            buf: buf.to_vec(),
            resp: res,
        });
        let repr = self.repr;
        res.map_err(|k| repr.make(k, "injected"))
    }

    fn flush(&mut self) -> io::Result<()> {
        self.log.borrow_mut().flushes += 1;
        match self.flush_error {
            Some(k) => Err(self.repr.make(k, "injected flush error")),
            None => Ok(()),
        }
    }
}

/// all scripts of length exactly `depth`
pub fn scripts_of_depth(depth: usize) -> Vec<Vec<Resp>> {
    let mut out = vec![vec![]];
    for _ in 0..depth {
        let mut next = Vec::with_capacity(out.len() * ALL_RESPS.len());
        for s in &out {
            for r in ALL_RESPS {
                let mut t = s.clone();
                t.push(r);
                next.push(t);
            }
        }
        out = next;
    }
    out
}

pub fn resp_strategy() -> impl proptest::strategy::Strategy<Value = Resp> {
    use proptest::prelude::*;
    prop_oneof![
        6 => Just(Resp::All),
        1 => Just(Resp::Accept(0)),
        3 => (1u8..=3).prop_map(Resp::Accept),
        2 => Just(Resp::Interrupted),
        1 => Just(Resp::WouldBlock),
        1 => Just(Resp::Other),
    ]
}
