//! R-VT: an independent, match-based implementation of Paul Williams' DEC
//! ANSI parser (vt100.net/emu/dec_ansi_parser) with the documented deviations
//! of the crate under test (DESIGN.md §3.1 D1–D6), and R-UTF8, a strict UTF-8
//! decoder written from Unicode Table 3-7. Neither reads any table of the
//! code under test.

use serde::{Deserialize, Serialize};

#[derive(Clone, Copy, PartialEq, Eq, Debug, Hash, Serialize, Deserialize)]
pub enum St {
    Anywhere,
    CsiEntry,
    CsiIgnore,
    CsiIntermediate,
    CsiParam,
    DcsEntry,
    DcsIgnore,
    DcsIntermediate,
    DcsParam,
    DcsPassthrough,
    Escape,
    EscapeIntermediate,
    Ground,
    OscString,
    SosPmApcString,
    Utf8,
}

pub const ALL_STATES: [St; 16] = [
    St::Anywhere,
    St::CsiEntry,
    St::CsiIgnore,
    St::CsiIntermediate,
    St::CsiParam,
    St::DcsEntry,
    St::DcsIgnore,
    St::DcsIntermediate,
    St::DcsParam,
    St::DcsPassthrough,
    St::Escape,
    St::EscapeIntermediate,
    St::Ground,
    St::OscString,
    St::SosPmApcString,
    St::Utf8,
];

#[derive(Clone, Copy, PartialEq, Eq, Debug, Hash)]
pub enum Ac {
    Nop,
    Clear,
    Collect,
    CsiDispatch,
    EscDispatch,
    Execute,
    Hook,
    Ignore,
    OscEnd,
    OscPut,
    OscStart,
    Param,
    Print,
    Put,
    Unhook,
    BeginUtf8,
}

use Ac::*;
use St::*;

/// The transition function: `None` = stay in the current state.
pub fn transition(s: St, b: u8) -> (Option<St>, Ac) {
    // D1: "anywhere" transitions (7-bit only)
    match b {
        0x18 | 0x1a => return (Some(Ground), Execute),
        0x1b => return (Some(Escape), Nop),
        _ => {}
    }
    // remaining C0 controls
    let c0 = matches!(b, 0x00..=0x17 | 0x19 | 0x1c..=0x1f);
    match s {
        Anywhere | Utf8 => (None, Nop),
        Ground => match b {
            _ if c0 => (None, Execute),
            0x20..=0x7f => (None, Print),
            0x80..=0x8f | 0x91..=0x9a | 0x9c => (None, Execute),
            0xc2..=0xf4 => (Some(Utf8), BeginUtf8),
            _ => (None, Nop),
        },
        Escape => match b {
            _ if c0 => (None, Execute),
            0x7f => (None, Ignore),
            0x20..=0x2f => (Some(EscapeIntermediate), Collect),
            0x50 => (Some(DcsEntry), Nop),
            0x58 | 0x5e | 0x5f => (Some(SosPmApcString), Nop),
            0x5b => (Some(CsiEntry), Nop),
            0x5d => (Some(OscString), Nop),
            0x30..=0x7e => (Some(Ground), EscDispatch),
            _ => (None, Nop),
        },
        EscapeIntermediate => match b {
            _ if c0 => (None, Execute),
            0x20..=0x2f => (None, Collect),
            0x7f => (None, Ignore),
            0x30..=0x7e => (Some(Ground), EscDispatch),
            _ => (None, Nop),
        },
        CsiEntry => match b {
            _ if c0 => (None, Execute),
            0x7f => (None, Ignore),
            0x20..=0x2f => (Some(CsiIntermediate), Collect),
            0x30..=0x3b => (Some(CsiParam), Param),
            0x3c..=0x3f => (Some(CsiParam), Collect),
            0x40..=0x7e => (Some(Ground), CsiDispatch),
            _ => (None, Nop),
        },
        CsiParam => match b {
            _ if c0 => (None, Execute),
            0x7f => (None, Ignore),
            0x30..=0x3b => (None, Param),
            0x3c..=0x3f => (Some(CsiIgnore), Nop),
            0x20..=0x2f => (Some(CsiIntermediate), Collect),
            0x40..=0x7e => (Some(Ground), CsiDispatch),
            _ => (None, Nop),
        },
        CsiIntermediate => match b {
            _ if c0 => (None, Execute),
            0x7f => (None, Ignore),
            0x20..=0x2f => (None, Collect),
            0x30..=0x3f => (Some(CsiIgnore), Nop),
            0x40..=0x7e => (Some(Ground), CsiDispatch),
            _ => (None, Nop),
        },
        CsiIgnore => match b {
            _ if c0 => (None, Execute),
            0x20..=0x3f | 0x7f => (None, Ignore),
            0x40..=0x7e => (Some(Ground), Nop),
            _ => (None, Nop),
        },
        DcsEntry => match b {
            _ if c0 => (None, Ignore),
            0x7f => (None, Ignore),
            0x20..=0x2f => (Some(DcsIntermediate), Collect),
            0x30..=0x3b => (Some(DcsParam), Param),
            0x3c..=0x3f => (Some(DcsParam), Collect),
            0x40..=0x7e => (Some(DcsPassthrough), Nop),
            _ => (None, Nop),
        },
        DcsParam => match b {
            _ if c0 => (None, Ignore),
            0x7f => (None, Ignore),
            0x30..=0x3b => (None, Param),
            0x3c..=0x3f => (Some(DcsIgnore), Nop),
            0x20..=0x2f => (Some(DcsIntermediate), Collect),
            0x40..=0x7e => (Some(DcsPassthrough), Nop),
            _ => (None, Nop),
        },
        DcsIntermediate => match b {
            _ if c0 => (None, Ignore),
            0x7f => (None, Ignore),
            0x20..=0x2f => (None, Collect),
            0x30..=0x3f => (Some(DcsIgnore), Nop),
            0x40..=0x7e => (Some(DcsPassthrough), Nop),
            _ => (None, Nop),
        },
        DcsPassthrough => match b {
            _ if c0 => (None, Put),
            0x20..=0x7e => (None, Put),
            0x7f => (None, Ignore),
            0x9c => (Some(Ground), Nop),
            _ => (None, Nop),
        },
        DcsIgnore | SosPmApcString => match b {
            _ if c0 => (None, Ignore),
            0x20..=0x7f => (None, Ignore),
            0x9c => (Some(Ground), Nop),
            _ => (None, Nop),
        },
        OscString => match b {
            0x07 => (Some(Ground), Nop),
            _ if c0 => (None, Ignore),
            0x20..=0xff => (None, OscPut),
            _ => (None, Nop),
        },
    }
}

#[derive(Debug, PartialEq, Eq, Clone, Hash, Serialize, Deserialize)]
pub enum Ev {
    Print(char),
    Exec(u8),
    Csi {
        groups: Vec<Vec<u16>>,
        inter: Vec<u8>,
        ignore: bool,
        fin: u8,
    },
    Esc {
        inter: Vec<u8>,
        ignore: bool,
        fin: u8,
    },
    Hook {
        groups: Vec<Vec<u16>>,
        inter: Vec<u8>,
        ignore: bool,
        fin: u8,
    },
    Put(u8),
    Unhook,
    Osc {
        fields: Vec<Vec<u8>>,
        bell: bool,
    },
}

impl Ev {
    pub fn is_dispatch(&self) -> bool {
        !matches!(self, Ev::Print(_) | Ev::Exec(_))
    }
}

/// R-UTF8: strict incremental decoder (Unicode 15 Table 3-7).
#[derive(Clone, Debug, Default, PartialEq, Eq)]
pub struct Utf8Dec {
    need: u8,
    lo: u8,
    hi: u8,
    cp: u32,
}

pub enum Utf8Step {
    /// more bytes needed
    More,
    /// a scalar value is complete
    Char(char),
    /// the byte is not acceptable here; it is consumed, decoder is reset
    Reject,
}

impl Utf8Dec {
    pub fn in_progress(&self) -> bool {
        self.need > 0
    }
    /// is `b` a byte that starts a multi-byte character
    pub fn is_lead(b: u8) -> bool {
        matches!(b, 0xc2..=0xf4)
    }
    pub fn push(&mut self, b: u8) -> Utf8Step {
        if self.need == 0 {
            let (need, lo, hi, cp) = match b {
                0x00..=0x7f => return Utf8Step::Char(b as char),
                0xc2..=0xdf => (1, 0x80, 0xbf, (b & 0x1f) as u32),
                0xe0 => (2, 0xa0, 0xbf, (b & 0x0f) as u32),
                0xe1..=0xec | 0xee..=0xef => (2, 0x80, 0xbf, (b & 0x0f) as u32),
                0xed => (2, 0x80, 0x9f, (b & 0x0f) as u32),
                0xf0 => (3, 0x90, 0xbf, (b & 0x07) as u32),
                0xf1..=0xf3 => (3, 0x80, 0xbf, (b & 0x07) as u32),
                0xf4 => (3, 0x80, 0x8f, (b & 0x07) as u32),
                _ => return Utf8Step::Reject,
            };
            self.need = need;
            self.lo = lo;
            self.hi = hi;
            self.cp = cp;
            return Utf8Step::More;
        }
        if b >= self.lo && b <= self.hi {
            self.cp = (self.cp << 6) | (b & 0x3f) as u32;
            self.need -= 1;
            self.lo = 0x80;
            self.hi = 0xbf;
            if self.need == 0 {
                let c = char::from_u32(self.cp).expect("ranges exclude surrogates");
                *self = Default::default();
                Utf8Step::Char(c)
            } else {
                Utf8Step::More
            }
        } else {
            *self = Default::default();
            Utf8Step::Reject
        }
    }
}

/// Is `bytes` well-formed UTF-8 (by R-UTF8, not by std)?
pub fn is_valid_utf8(bytes: &[u8]) -> bool {
    let mut d = Utf8Dec::default();
    for &b in bytes {
        match d.push(b) {
            Utf8Step::Reject => return false,
            _ => {}
        }
    }
    !d.in_progress()
}

/// Character boundaries of a valid UTF-8 string (including 0 and len).
pub fn char_boundaries(bytes: &[u8]) -> Vec<usize> {
    let mut v = vec![];
    for (i, &b) in bytes.iter().enumerate() {
        if !(0x80..=0xbf).contains(&b) {
            v.push(i);
        }
    }
    v.push(bytes.len());
    v
}

/// The reference parser.
#[derive(Clone, Debug)]
pub struct Machine {
    pub st: St,
    groups: Vec<Vec<u16>>,
    open: bool,
    cur: u16,
    count: usize,
    inter: Vec<u8>,
    ign: bool,
    osc: Vec<u8>,
    osc_seps: usize,
    utf8: Utf8Dec,
    pub ev: Vec<Ev>,
    /// index of the input byte that completed each event
    pub at: Vec<usize>,
    pos: usize,
    /// when set, OSC payload bytes beyond this many are dropped (models the
    /// fixed-buffer configuration of C20; separators are not stored)
    pub osc_cap: Option<usize>,
    osc_len: usize,
}

pub const MAX_PARAMS: usize = 32;
pub const MAX_INTERMEDIATES: usize = 2;
pub const MAX_OSC_FIELDS: usize = 16;

impl Default for Machine {
    fn default() -> Self {
        Self::new()
    }
}

impl Machine {
    pub fn new() -> Self {
        Machine {
            st: Ground,
            groups: vec![],
            open: false,
            cur: 0,
            count: 0,
            inter: vec![],
            ign: false,
            osc: vec![],
            osc_seps: 0,
            utf8: Default::default(),
            ev: vec![],
            at: vec![],
            pos: 0,
            osc_cap: None,
            osc_len: 0,
        }
    }

    fn emit(&mut self, e: Ev) {
        self.ev.push(e);
        self.at.push(self.pos);
    }

    fn clear(&mut self) {
        self.groups.clear();
        self.open = false;
        self.cur = 0;
        self.count = 0;
        self.inter.clear();
        self.ign = false;
    }

    fn push_val(&mut self, close: bool) {
        if self.count == MAX_PARAMS {
            self.ign = true;
            return;
        }
        if !self.open {
            self.groups.push(vec![]);
            self.open = true;
        }
        self.groups.last_mut().unwrap().push(self.cur);
        self.count += 1;
        self.cur = 0;
        if close {
            self.open = false;
        }
    }

    fn param(&mut self, b: u8) {
        if self.count == MAX_PARAMS {
            self.ign = true;
            return;
        }
        match b {
            b';' => self.push_val(true),
            b':' => self.push_val(false),
            d => {
                self.cur = self
                    .cur
                    .saturating_mul(10)
                    .saturating_add((d - b'0') as u16);
            }
        }
    }

    fn finish_params(&mut self) {
        if self.count == MAX_PARAMS {
            self.ign = true;
        } else {
            self.push_val(true);
        }
    }

    fn osc_fields(&self) -> Vec<Vec<u8>> {
        let mut f: Vec<Vec<u8>> = self.osc.split(|b| *b == b';').map(|s| s.to_vec()).collect();
        f.truncate(MAX_OSC_FIELDS);
        f
    }

    fn osc_put(&mut self, b: u8) {
        if let Some(cap) = self.osc_cap {
            if self.osc_len >= cap {
                return;
            }
        }
        if b == b';' {
            // D5: separators beyond the 16th are dropped
            if self.osc_seps >= MAX_OSC_FIELDS {
                return;
            }
            self.osc_seps += 1;
            self.osc.push(b);
        } else {
            self.osc.push(b);
            self.osc_len += 1;
        }
    }

    fn utf8_byte(&mut self, b: u8) {
        match self.utf8.push(b) {
            Utf8Step::More => {}
            Utf8Step::Char(c) => {
                self.emit(Ev::Print(c));
                self.st = Ground;
            }
            Utf8Step::Reject => {
                self.emit(Ev::Print('\u{fffd}'));
                self.st = Ground;
            }
        }
    }

    pub fn feed(&mut self, b: u8) {
        let s = self.st;
        if s == Utf8 {
            // D3: inside a character everything goes to the decoder
            self.utf8_byte(b);
            self.pos += 1;
            return;
        }
        let (ns, a) = transition(s, b);
        if let Some(ns) = ns {
            // exit action of the old state
            match s {
                DcsPassthrough => self.emit(Ev::Unhook),
                OscString => {
                    let f = self.osc_fields();
                    self.emit(Ev::Osc {
                        fields: f,
                        bell: b == 0x07,
                    });
                }
                _ => {}
            }
            self.act(a, b);
            // entry action of the new state
            match ns {
                CsiEntry | DcsEntry | Escape => self.clear(),
                DcsPassthrough => {
                    self.finish_params();
                    let e = Ev::Hook {
                        groups: self.groups.clone(),
                        inter: self.inter.clone(),
                        ignore: self.ign,
                        fin: b,
                    };
                    self.emit(e);
                }
                OscString => {
                    self.osc.clear();
                    self.osc_seps = 0;
                    self.osc_len = 0;
                }
                _ => {}
            }
            self.st = ns;
        } else {
            self.act(a, b);
        }
        self.pos += 1;
    }

    fn act(&mut self, a: Ac, b: u8) {
        match a {
            Print => self.emit(Ev::Print(b as char)),
            Execute => self.emit(Ev::Exec(b)),
            Put => self.emit(Ev::Put(b)),
            OscPut => self.osc_put(b),
            Param => self.param(b),
            Collect => {
                if self.inter.len() == MAX_INTERMEDIATES {
                    self.ign = true;
                } else {
                    self.inter.push(b);
                }
            }
            CsiDispatch => {
                self.finish_params();
                let e = Ev::Csi {
                    groups: self.groups.clone(),
                    inter: self.inter.clone(),
                    ignore: self.ign,
                    fin: b,
                };
                self.emit(e);
            }
            EscDispatch => {
                let e = Ev::Esc {
                    inter: self.inter.clone(),
                    ignore: self.ign,
                    fin: b,
                };
                self.emit(e);
            }
            BeginUtf8 => {
                self.st = Utf8;
                self.utf8_byte(b);
                // a 1-step completion is impossible for a lead byte, so the
                // machine is now in Utf8
            }
            _ => {}
        }
    }

    pub fn feed_all(&mut self, bytes: &[u8]) {
        for &b in bytes {
            self.feed(b);
        }
    }
}

pub fn events(bytes: &[u8]) -> Vec<Ev> {
    let mut m = Machine::new();
    m.feed_all(bytes);
    m.ev
}

/// State of the reference machine after `bytes`.
pub fn state_after(bytes: &[u8]) -> St {
    let mut m = Machine::new();
    m.feed_all(bytes);
    m.st
}

/// C01's "visible text": bytes of Print events other than DEL and of the
/// Execute events for TAB LF FF CR, in order.
pub fn visible(bytes: &[u8]) -> Vec<u8> {
    let mut o = vec![];
    for e in events(bytes) {
        match e {
            Ev::Print(c) if c != '\x7f' => {
                let mut t = [0u8; 4];
                o.extend_from_slice(c.encode_utf8(&mut t).as_bytes());
            }
            Ev::Exec(x) if matches!(x, 0x09 | 0x0a | 0x0c | 0x0d) => o.push(x),
            _ => {}
        }
    }
    o
}

pub fn is_ws_control(b: u8) -> bool {
    matches!(b, 0x09 | 0x0a | 0x0c | 0x0d)
}

/// Does the input contain at least one byte that is not visible text
/// (i.e. is there something to strip)?
pub fn has_invisible(bytes: &[u8]) -> bool {
    visible(bytes).len() != bytes.len()
}
