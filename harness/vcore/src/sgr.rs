//! R-SGR: reference SGR interpreter ("terminal") over R-VT events, with its
//! own style representation (no code shared with `anstyle`).
//!
//! Rules: ECMA-48 §8.3.117, ITU T.416 (38/48/58 with ':'), xterm ctlseqs
//! (';' spelling of extended colours, 90–97/100–107), kitty underline styles
//! (4:n, 58/59).

use serde::{Deserialize, Serialize};

#[derive(Clone, Copy, PartialEq, Eq, Debug, Hash, Serialize, Deserialize, PartialOrd, Ord)]
pub enum MColor {
    /// 16-colour palette entry 0..16 (8.. = bright)
    Ansi(u8),
    /// 256-colour palette index
    Idx(u8),
    Rgb(u8, u8, u8),
}

impl MColor {
    /// palette colour k and 256-colour index k (k < 16) denote the same
    /// terminal colour: canonical form for comparisons through rendered text
    pub fn canon(self) -> MColor {
        match self {
            MColor::Idx(k) if k < 16 => MColor::Ansi(k),
            c => c,
        }
    }
}

pub const BOLD: u16 = 1 << 0;
pub const DIMMED: u16 = 1 << 1;
pub const ITALIC: u16 = 1 << 2;
pub const UNDERLINE: u16 = 1 << 3;
pub const DOUBLE_UNDERLINE: u16 = 1 << 4;
pub const CURLY_UNDERLINE: u16 = 1 << 5;
pub const DOTTED_UNDERLINE: u16 = 1 << 6;
pub const DASHED_UNDERLINE: u16 = 1 << 7;
pub const BLINK: u16 = 1 << 8;
pub const INVERT: u16 = 1 << 9;
pub const HIDDEN: u16 = 1 << 10;
pub const STRIKETHROUGH: u16 = 1 << 11;
pub const UL_KINDS: u16 =
    UNDERLINE | DOUBLE_UNDERLINE | CURLY_UNDERLINE | DOTTED_UNDERLINE | DASHED_UNDERLINE;
pub const ALL_EFFECTS: u16 = (1 << 12) - 1;

pub const EFFECT_NAMES: [&str; 12] = [
    "BOLD",
    "DIMMED",
    "ITALIC",
    "UNDERLINE",
    "DOUBLE_UNDERLINE",
    "CURLY_UNDERLINE",
    "DOTTED_UNDERLINE",
    "DASHED_UNDERLINE",
    "BLINK",
    "INVERT",
    "HIDDEN",
    "STRIKETHROUGH",
];

#[derive(Clone, Copy, PartialEq, Eq, Debug, Hash, Default, Serialize, Deserialize)]
pub struct MStyle {
    pub fg: Option<MColor>,
    pub bg: Option<MColor>,
    pub ul: Option<MColor>,
    pub effects: u16,
}

impl MStyle {
    pub fn is_plain(&self) -> bool {
        *self == MStyle::default()
    }
    pub fn canon(self) -> MStyle {
        MStyle {
            fg: self.fg.map(MColor::canon),
            bg: self.bg.map(MColor::canon),
            ul: self.ul.map(MColor::canon),
            effects: self.effects,
        }
    }
    pub fn describe(&self) -> String {
        let mut names = vec![];
        for (i, n) in EFFECT_NAMES.iter().enumerate() {
            if self.effects >> i & 1 == 1 {
                names.push(*n);
            }
        }
        format!(
            "fg={:?} bg={:?} ul={:?} effects=[{}]",
            self.fg,
            self.bg,
            self.ul,
            names.join("|")
        )
    }
}

fn set_ul(e: u16, kind: Option<u16>) -> u16 {
    (e & !UL_KINDS) | kind.unwrap_or(0)
}

/// What a colour index / component above 255 denotes is not settled by the
/// standards (xterm and VTE ignore the colour, others saturate): the general
/// generators stay within 0..=255 and the dedicated sub-checks evaluate the
/// model under both readings and accept either.
#[derive(Clone, Copy, PartialEq, Eq, Debug)]
pub enum OutOfRange {
    /// the value saturates at 255
    Saturate,
    /// the colour is consumed but changes nothing
    Ignore,
}

thread_local! {
    static OOR: std::cell::Cell<OutOfRange> = const { std::cell::Cell::new(OutOfRange::Saturate) };
}

/// Run `f` with the given reading of out-of-range colour values (this thread only).
pub fn with_out_of_range<T>(mode: OutOfRange, f: impl FnOnce() -> T) -> T {
    let old = OOR.with(|c| c.replace(mode));
    let r = f();
    OOR.with(|c| c.set(old));
    r
}

fn idx_color(n: u16) -> Option<MColor> {
    if n > 255 && OOR.with(|c| c.get()) == OutOfRange::Ignore {
        return None;
    }
    Some(MColor::Idx(n.min(255) as u8))
}

fn rgb_color(r: u16, g: u16, b: u16) -> Option<MColor> {
    if (r > 255 || g > 255 || b > 255) && OOR.with(|c| c.get()) == OutOfRange::Ignore {
        return None;
    }
    Some(MColor::Rgb(r.min(255) as u8, g.min(255) as u8, b.min(255) as u8))
}

/// Apply one SGR sequence (parameter groups as reported by the parser:
/// `a:b:c` is one group `[a,b,c]`, `a;b` two groups) to a style.
pub fn apply_sgr(mut st: MStyle, groups: &[Vec<u16>]) -> MStyle {
    let mut i = 0;
    while i < groups.len() {
        let g = &groups[i];
        let code = g.first().copied().unwrap_or(0);
        if g.len() > 1 {
            // ':' form
            match code {
                4 => {
                    let k = match g[1] {
                        0 => Some(None),
                        1 => Some(Some(UNDERLINE)),
                        2 => Some(Some(DOUBLE_UNDERLINE)),
                        3 => Some(Some(CURLY_UNDERLINE)),
                        4 => Some(Some(DOTTED_UNDERLINE)),
                        5 => Some(Some(DASHED_UNDERLINE)),
                        _ => None,
                    };
                    if let Some(k) = k {
                        st.effects = set_ul(st.effects, k);
                    }
                }
                38 | 48 | 58 => {
                    let col = if g[1] == 5 && g.len() >= 3 {
                        idx_color(g[2])
                    } else if g[1] == 2 && g.len() == 5 {
                        rgb_color(g[2], g[3], g[4])
                    } else if g[1] == 2 && g.len() >= 6 {
                        // 38:2:<colour-space>:r:g:b
                        rgb_color(g[3], g[4], g[5])
                    } else {
                        None
                    };
                    if let Some(c) = col {
                        match code {
                            38 => st.fg = Some(c),
                            48 => st.bg = Some(c),
                            _ => st.ul = Some(c),
                        }
                    }
                }
                _ => {}
            }
            i += 1;
            continue;
        }
        match code {
            0 => st = MStyle::default(),
            1 => st.effects |= BOLD,
            2 => st.effects |= DIMMED,
            3 => st.effects |= ITALIC,
            4 => st.effects = set_ul(st.effects, Some(UNDERLINE)),
            5 | 6 => st.effects |= BLINK,
            7 => st.effects |= INVERT,
            8 => st.effects |= HIDDEN,
            9 => st.effects |= STRIKETHROUGH,
            21 => st.effects = set_ul(st.effects, Some(DOUBLE_UNDERLINE)),
            22 => st.effects &= !(BOLD | DIMMED),
            23 => st.effects &= !ITALIC,
            24 => st.effects &= !UL_KINDS,
            25 => st.effects &= !BLINK,
            27 => st.effects &= !INVERT,
            28 => st.effects &= !HIDDEN,
            29 => st.effects &= !STRIKETHROUGH,
            30..=37 => st.fg = Some(MColor::Ansi((code - 30) as u8)),
            90..=97 => st.fg = Some(MColor::Ansi((code - 90 + 8) as u8)),
            40..=47 => st.bg = Some(MColor::Ansi((code - 40) as u8)),
            100..=107 => st.bg = Some(MColor::Ansi((code - 100 + 8) as u8)),
            39 => st.fg = None,
            49 => st.bg = None,
            59 => st.ul = None,
            38 | 48 | 58 => {
                // ';' form: look ahead over the following single-value groups
                let get = |k: usize| groups.get(i + k).filter(|g| g.len() == 1).map(|g| g[0]);
                let (col, used) = match get(1) {
                    Some(5) => match get(2) {
                        Some(n) => (idx_color(n), 2),
                        None => (None, 1),
                    },
                    Some(2) => match (get(2), get(3), get(4)) {
                        (Some(r), Some(g), Some(b)) => (rgb_color(r, g, b), 4),
                        _ => (None, 1),
                    },
                    _ => (None, 0),
                };
                if let Some(c) = col {
                    match code {
                        38 => st.fg = Some(c),
                        48 => st.bg = Some(c),
                        _ => st.ul = Some(c),
                    }
                }
                i += used;
            }
            _ => {}
        }
        i += 1;
    }
    st
}

/// Is this parser event an SGR sequence? Only `CSI … m` without private
/// marker / intermediates and without the overflow flag.
pub fn sgr_groups(e: &crate::vt::Ev) -> Option<&[Vec<u16>]> {
    match e {
        crate::vt::Ev::Csi {
            groups,
            inter,
            ignore: false,
            fin: b'm',
        } if inter.is_empty() => Some(groups),
        _ => None,
    }
}

/// Per-character styled text of a byte stream as a conforming terminal
/// would show it: `(style in effect, char)` for every printed character and
/// every executed whitespace control (`ws` decides which executes are text).
pub fn styled_chars(bytes: &[u8], keep_exec: impl Fn(u8) -> bool) -> Vec<(MStyle, char)> {
    let mut st = MStyle::default();
    let mut out = vec![];
    for e in crate::vt::events(bytes) {
        if let Some(g) = sgr_groups(&e) {
            st = apply_sgr(st, g);
            continue;
        }
        match e {
            crate::vt::Ev::Print(c) => out.push((st, c)),
            crate::vt::Ev::Exec(b) if keep_exec(b) => out.push((st, b as char)),
            _ => {}
        }
    }
    out
}

/// Final style after interpreting `bytes` from the default state.
pub fn final_style(bytes: &[u8]) -> MStyle {
    let mut st = MStyle::default();
    for e in crate::vt::events(bytes) {
        if let Some(g) = sgr_groups(&e) {
            st = apply_sgr(st, g);
        }
    }
    st
}

// ---- conversion from the style type under test (through its public getters)

pub fn from_color(c: anstyle::Color) -> MColor {
    match c {
        anstyle::Color::Ansi(a) => MColor::Ansi(ansi_index(a)),
        anstyle::Color::Ansi256(i) => MColor::Idx(i.0),
        anstyle::Color::Rgb(r) => MColor::Rgb(r.0, r.1, r.2),
    }
}

pub fn ansi_index(a: anstyle::AnsiColor) -> u8 {
    use anstyle::AnsiColor::*;
    match a {
        Black => 0,
        Red => 1,
        Green => 2,
        Yellow => 3,
        Blue => 4,
        Magenta => 5,
        Cyan => 6,
        White => 7,
        BrightBlack => 8,
        BrightRed => 9,
        BrightGreen => 10,
        BrightYellow => 11,
        BrightBlue => 12,
        BrightMagenta => 13,
        BrightCyan => 14,
        BrightWhite => 15,
    }
}

pub const ANSI_COLORS: [anstyle::AnsiColor; 16] = {
    use anstyle::AnsiColor::*;
    [
        Black,
        Red,
        Green,
        Yellow,
        Blue,
        Magenta,
        Cyan,
        White,
        BrightBlack,
        BrightRed,
        BrightGreen,
        BrightYellow,
        BrightBlue,
        BrightMagenta,
        BrightCyan,
        BrightWhite,
    ]
};

pub const EFFECTS: [anstyle::Effects; 12] = [
    anstyle::Effects::BOLD,
    anstyle::Effects::DIMMED,
    anstyle::Effects::ITALIC,
    anstyle::Effects::UNDERLINE,
    anstyle::Effects::DOUBLE_UNDERLINE,
    anstyle::Effects::CURLY_UNDERLINE,
    anstyle::Effects::DOTTED_UNDERLINE,
    anstyle::Effects::DASHED_UNDERLINE,
    anstyle::Effects::BLINK,
    anstyle::Effects::INVERT,
    anstyle::Effects::HIDDEN,
    anstyle::Effects::STRIKETHROUGH,
];

pub fn from_effects(e: anstyle::Effects) -> u16 {
    let mut bits = 0;
    for (i, f) in EFFECTS.iter().enumerate() {
        if e.contains(*f) {
            bits |= 1 << i;
        }
    }
    bits
}

pub fn from_style(s: anstyle::Style) -> MStyle {
    MStyle {
        fg: s.get_fg_color().map(from_color),
        bg: s.get_bg_color().map(from_color),
        ul: s.get_underline_color().map(from_color),
        effects: from_effects(s.get_effects()),
    }
}

pub fn to_color(c: MColor) -> anstyle::Color {
    match c {
        MColor::Ansi(k) => anstyle::Color::Ansi(ANSI_COLORS[k as usize & 15]),
        MColor::Idx(i) => anstyle::Color::Ansi256(anstyle::Ansi256Color(i)),
        MColor::Rgb(r, g, b) => anstyle::Color::Rgb(anstyle::RgbColor(r, g, b)),
    }
}

pub fn to_effects(bits: u16) -> anstyle::Effects {
    let mut e = anstyle::Effects::new();
    for (i, f) in EFFECTS.iter().enumerate() {
        if bits >> i & 1 == 1 {
            e = e.insert(*f);
        }
    }
    e
}

pub fn to_style(m: MStyle) -> anstyle::Style {
    anstyle::Style::new()
        .fg_color(m.fg.map(to_color))
        .bg_color(m.bg.map(to_color))
        .underline_color(m.ul.map(to_color))
        .effects(to_effects(m.effects))
}
