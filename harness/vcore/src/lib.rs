//! Shared machinery of the anstyle verification harness (see /verif/DESIGN.md).
pub mod drive;
pub mod fault;
pub mod gen;
pub mod lits;
pub mod palette;
pub mod rt;
pub mod sgr;
pub mod vt;
pub mod xml;
