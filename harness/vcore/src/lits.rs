//! Formatted writes whose format string is a bare literal (`write!(w, "text")`): for these
//! `fmt::Arguments::as_str()` is `Some`, a case an implementation of `write_fmt` may treat
//! specially. The strings have to be literals at compile time, hence a fixed table.
use std::io::Write;

macro_rules! literal_table {
    ($($lit:literal),* $(,)?) => {
        /// the table (no `{` / `}` inside: they would be format directives)
        pub const LITS: &[&str] = &[$($lit),*];

        /// `write!(w, <literal #i>)` / `writeln!(w, <literal #i>)`
        pub fn write_lit(w: &mut dyn Write, i: usize, newline: bool) -> std::io::Result<()> {
            let mut k = 0usize;
            $(
                if i == k {
                    return if newline { writeln!(w, $lit) } else { write!(w, $lit) };
                }
                k += 1;
            )*
            let _ = k;
            panic!("no literal #{i}")
        }
    };
}

literal_table![
    "plain text",
    "",
    " ",
    "ding\x07dong\x7f!",
    "a\rb\tc\nd",
    "\x1b[31mred\x1b[0m",
    "\x1b[3",
    "1mred",
    "\x1b",
    "[1mX",
    "\x1b]0;",
    "my title",
    "\x07after",
    "\x1b\\rest",
    "0;t\x1b",
    "\\",
    "\x1bPq",
    "38;5;1mZ",
    "\x1b[1;",
    "31m",
    "\x18x",
    "\x1ay",
    "é漢😀",
    "\x1b[1;4mé",
    "Hello, \x1b[1;4;38;5;208mworld\x1b[m and \x1b[48;2;1;2;3mmore\x1b[0m!\n",
    "\x1b[31mHello, red\x1b[0m and \x1b[48;5;12mblue\x1b[0m\n",
    "\x1b[32m",
    "\x1b[0m",
    "m",
    "~",
    "\x1b[",
    ";",
    "4m_",
    "\x1b[4:3m_",
    "x\x1b[41my\x1b[91mz\x1b[7mw",
];

/// what `write_lit(_, i, newline)` hands to the writer
pub fn lit_bytes(i: usize, newline: bool) -> Vec<u8> {
    let mut v = LITS[i].as_bytes().to_vec();
    if newline {
        v.push(b'\n');
    }
    v
}

#[cfg(test)]
mod tests {
    use super::*;
    #[test]
    fn table_is_consistent() {
        for i in 0..LITS.len() {
            for nl in [false, true] {
                let mut v = Vec::new();
                write_lit(&mut v, i, nl).unwrap();
                assert_eq!(v, lit_bytes(i, nl));
                assert!(!LITS[i].contains(['{', '}']));
            }
        }
    }
}
