//! Generators: G-STREAM (escape-stream grammar), G-SGR (SGR attribute
//! groups), G-ALPHA (class-representative alphabet), G-CHUNK (partitions).

use crate::sgr::{apply_sgr, MStyle, UL_KINDS};
use proptest::collection::vec;
use proptest::prelude::*;
use proptest::sample::select;

// ---------------------------------------------------------------- G-ALPHA

/// One representative of every byte class Williams' diagram distinguishes,
/// plus digits, separators and UTF-8 leads / continuations.
pub const ALPHA_FULL: &[u8] = &[
    0x00, 0x07, 0x09, 0x0a, 0x0c, 0x0d, 0x18, 0x19, 0x1a, 0x1b, 0x1c, 0x20, 0x23, 0x30, 0x35,
    0x39, 0x3a, 0x3b, 0x3c, 0x3f, 0x40, 0x50, 0x58, 0x5b, 0x5c, 0x5d, 0x5e, 0x5f, 0x61, 0x6d,
    0x7e, 0x7f, 0x80, 0x90, 0x9b, 0x9c, 0x9d, 0xa0, 0xa9, 0xc1, 0xc2, 0xc3, 0xe2, 0x82, 0xac,
    0xf0, 0x9f, 0x98, 0xf4, 0xf5, 0xff,
];

/// 24-symbol sub-alphabet for the deeper levels.
pub const ALPHA_SUB: &[u8] = &[
    0x07, 0x0a, 0x18, 0x1b, 0x20, 0x23, 0x31, 0x3a, 0x3b, 0x3f, 0x50, 0x5b, 0x5c, 0x5d, 0x5f,
    0x61, 0x6d, 0x7f, 0x90, 0x9c, 0xa9, 0xc3, 0xe2, 0x82,
];

/// Alphabet whose symbols are whole characters / sequence introducers, for
/// enumerating valid UTF-8 strings deeper than single bytes allow.
pub const ALPHA_STR: &[&[u8]] = &[
    b"\x07", b"\x09", b"\x0a", b"\x0d", b"\x18", b"\x1b", b" ", b"#", b"1", b"3", b":", b";",
    b"?", b"P", b"[", b"\\", b"]", b"_", b"a", b"m", b"\x7f", b"\xc3\xa9", b"\xe2\x82\xac",
    b"\xc2\x9b",
];

pub fn as_symbols(a: &[u8]) -> Vec<Vec<u8>> {
    a.iter().map(|b| vec![*b]).collect()
}

// ------------------------------------------------------------------ G-SGR

#[derive(Clone, Debug, PartialEq, Eq)]
pub enum Group {
    /// single code, rendered with `zeros` leading zeros
    Single { code: u16, zeros: u8 },
    Empty,
    /// code with no representation in `anstyle::Style`
    Unknown(u16),
    /// `4:n`
    Ul(u16),
    /// 38/48/58 ;5;n or :5:n
    Idx { target: u16, colon: bool, n: u16 },
    /// 38/48/58 ;2;r;g;b or :2:r:g:b
    Rgb { target: u16, colon: bool, r: u16, g: u16, b: u16 },
    /// ITU T.416 form with a colour-space identifier: 38:2:<cs>:r:g:b (cs may be empty)
    RgbCs { target: u16, cs: Option<u16>, r: u16, g: u16, b: u16 },
}

impl Group {
    pub fn render(&self) -> String {
        match self {
            Group::Single { code, zeros } => {
                format!("{}{}", "0".repeat(*zeros as usize), code)
            }
            Group::Empty => String::new(),
            Group::Unknown(c) => c.to_string(),
            Group::Ul(n) => format!("4:{n}"),
            Group::Idx { target, colon, n } => {
                let s = if *colon { ':' } else { ';' };
                format!("{target}{s}5{s}{n}")
            }
            Group::Rgb {
                target,
                colon,
                r,
                g,
                b,
            } => {
                let s = if *colon { ':' } else { ';' };
                format!("{target}{s}2{s}{r}{s}{g}{s}{b}")
            }
            Group::RgbCs { target, cs, r, g, b } => {
                format!("{target}:2:{}:{r}:{g}:{b}", cs.map(|c| c.to_string()).unwrap_or_default())
            }
        }
    }
    /// number of parser parameter values this group occupies
    pub fn values(&self) -> usize {
        match self {
            Group::Idx { .. } => 3,
            Group::Rgb { .. } => 5,
            Group::RgbCs { .. } => 6,
            Group::Ul(_) => 2,
            _ => 1,
        }
    }
    /// groups as the parser reports them
    pub fn parsed(&self) -> Vec<Vec<u16>> {
        match self {
            Group::Single { code, .. } => vec![vec![*code]],
            Group::Empty => vec![vec![0]],
            Group::Unknown(c) => vec![vec![*c]],
            Group::Ul(n) => vec![vec![4, *n]],
            Group::Idx { target, colon, n } => {
                if *colon {
                    vec![vec![*target, 5, *n]]
                } else {
                    vec![vec![*target], vec![5], vec![*n]]
                }
            }
            Group::Rgb {
                target,
                colon,
                r,
                g,
                b,
            } => {
                if *colon {
                    vec![vec![*target, 2, *r, *g, *b]]
                } else {
                    vec![vec![*target], vec![2], vec![*r], vec![*g], vec![*b]]
                }
            }
            Group::RgbCs { target, cs, r, g, b } => vec![vec![*target, 2, cs.unwrap_or(0), *r, *g, *b]],
        }
    }
    pub fn is_extended(&self) -> bool {
        matches!(self, Group::Idx { .. } | Group::Rgb { .. } | Group::RgbCs { .. } | Group::Ul(_))
    }
}

pub fn render_sgr(groups: &[Group]) -> Vec<u8> {
    let mut s = String::from("\x1b[");
    for (i, g) in groups.iter().enumerate() {
        if i > 0 {
            s.push(';');
        }
        s.push_str(&g.render());
    }
    s.push('m');
    s.into_bytes()
}

/// The single codes of the C07 domain.
pub const SGR_SINGLES: &[u16] = &[
    0, 1, 2, 3, 4, 7, 8, 9, 21, 30, 31, 32, 33, 34, 35, 36, 37, 39, 40, 41, 42, 43, 44, 45, 46,
    47, 49, 90, 91, 92, 93, 94, 95, 96, 97, 100, 101, 102, 103, 104, 105, 106, 107,
];

/// Codes with no representation in the style type (and no SGR meaning that
/// would change a represented attribute).
pub const SGR_UNKNOWN: &[u16] = &[
    10, 11, 15, 20, 26, 50, 51, 53, 55, 60, 65, 73, 75, 98, 99, 108, 109, 110, 200, 255, 256,
    300, 1000, 65535,
];

/// colour component / index values biased to boundaries and to values that
/// look like other codes
pub fn color_value() -> BoxedStrategy<u16> {
    prop_oneof![
        3 => select(vec![0u16, 1, 2, 4, 5, 7, 8, 9, 15, 16, 21, 30, 38, 39, 48, 49, 58, 196, 231, 232, 254, 255]),
        1 => 0u16..=255,
    ]
    .boxed()
}

pub fn sgr_group() -> BoxedStrategy<Group> {
    let target = || select(vec![38u16, 48, 58]);
    prop_oneof![
        8 => (select(SGR_SINGLES.to_vec()), prop_oneof![4 => Just(0u8), 1 => 1u8..=3])
            .prop_map(|(code, zeros)| Group::Single { code, zeros }),
        1 => Just(Group::Empty),
        2 => select(SGR_UNKNOWN.to_vec()).prop_map(Group::Unknown),
        2 => (0u16..=5).prop_map(Group::Ul),
        3 => (target(), any::<bool>(), color_value())
            .prop_map(|(target, colon, n)| Group::Idx { target, colon, n }),
        3 => (target(), any::<bool>(), color_value(), color_value(), color_value())
            .prop_map(|(target, colon, r, g, b)| Group::Rgb { target, colon, r, g, b }),
        1 => (target(), proptest::option::of(select(vec![0u16, 1, 2, 5, 38])), color_value(), color_value(), color_value())
            .prop_map(|(target, cs, r, g, b)| Group::RgbCs { target, cs, r, g, b }),
    ]
    .boxed()
}

/// 1–8 groups, at most 32 parameter values in total.
pub fn sgr_groups() -> BoxedStrategy<Vec<Group>> {
    vec(sgr_group(), 1..=8)
        .prop_map(|mut v| {
            let mut total = 0;
            let mut keep = 0;
            for g in &v {
                if total + g.values() > 32 {
                    break;
                }
                total += g.values();
                keep += 1;
            }
            v.truncate(keep.max(1));
            v
        })
        .boxed()
}

// --------------------------------------------------------------- G-STREAM

#[derive(Clone, Debug)]
pub enum Item {
    Raw { class: &'static str, bytes: Vec<u8> },
    Sgr(Vec<Group>),
}

impl Item {
    pub fn class(&self) -> &'static str {
        match self {
            Item::Raw { class, .. } => class,
            Item::Sgr(_) => "sgr",
        }
    }
    pub fn bytes(&self) -> Vec<u8> {
        match self {
            Item::Raw { bytes, .. } => bytes.clone(),
            Item::Sgr(g) => render_sgr(g),
        }
    }
}

fn raw(class: &'static str, s: impl Strategy<Value = Vec<u8>> + 'static) -> BoxedStrategy<Item> {
    s.prop_map(move |bytes| Item::Raw { class, bytes }).boxed()
}

pub fn text_ascii() -> BoxedStrategy<Vec<u8>> {
    // includes digits and `; : m [ ]` so that leaked parameters show up as text
    prop_oneof![
        3 => "[ -~]{1,8}".prop_map(String::into_bytes),
        2 => "[0-9;:m\\[\\]?]{1,6}".prop_map(String::into_bytes),
        1 => "[a-z]{1,3}".prop_map(String::into_bytes),
        1 => select(SHAPED_TEXTS.to_vec()).prop_map(|s| s.as_bytes().to_vec()),
    ]
    .boxed()
}

/// texts of the shapes found in command-line help, manual pages and markup: what a text looks
/// like must never influence how it is treated
pub const SHAPED_TEXTS: &[&str] = &[
    "<FILE>", "<a>", "<A|B>", "<>", "[OPTIONS]", "--help", "-h, --help", "FILE...", "{x}", "$HOME", "a=b", "100%", "#1", "~/x", "`cmd`", "(s)", "*bold*", "_it_", "<b>x</b>", "&amp;", "&#65;",
    "&lt;", "NAME", "foo(1)", "\"q\"", "'q'", "1.", "- item", "=====", "http://x/y?z=1&w=2", "C:\\dir", "@x", "^", "|", "]]>", "<!--", "<?x", "%s", "{}", "{0}", "\\n", "\\x1b[1m", "^[[1m", "ESC[1m",
];

const UTF8_POOL: &[&str] = &[
    "é", "ß", "€", "—", "漢", "字", "😀", "🦀", "\u{0301}", "\u{200d}", "\u{200b}", "\u{feff}",
    "\u{80}", "\u{85}", "\u{9b}", "\u{9c}", "\u{a0}", "\u{7ff}", "\u{800}", "\u{ffff}",
    "\u{10000}", "\u{10ffff}", "\u{fffd}", "\u{d7ff}", "\u{e000}",
];

pub fn text_utf8() -> BoxedStrategy<Vec<u8>> {
    vec(
        prop_oneof![
            3 => select(UTF8_POOL.to_vec()).prop_map(|s| s.to_owned()),
            1 => any::<char>().prop_filter("no controls", |c| !c.is_control()).prop_map(|c| c.to_string()),
            1 => "[a-z0-9]".prop_map(|s| s),
        ],
        1..=4,
    )
    .prop_map(|v| v.concat().into_bytes())
    .boxed()
}

fn ws_byte() -> BoxedStrategy<u8> {
    select(vec![0x09u8, 0x0a, 0x0c, 0x0d]).boxed()
}

fn c0_byte() -> BoxedStrategy<u8> {
    // every C0 control except the whitespace ones, CAN, SUB and ESC
    select(
        (0u8..0x20)
            .filter(|b| !matches!(b, 0x09 | 0x0a | 0x0c | 0x0d | 0x18 | 0x1a | 0x1b))
            .collect::<Vec<_>>(),
    )
    .boxed()
}

/// raw CSI parameter bytes: 0..=40 parameters, sub-parameters, empty
/// parameters, 1..=25 digit values
pub fn csi_params() -> BoxedStrategy<Vec<u8>> {
    let value = prop_oneof![
        2 => Just(String::new()),
        6 => "[0-9]{1,3}",
        1 => "[0-9]{4,6}",
        1 => "[0-9]{7,25}",
        // saturation boundary of the 16-bit parameter values
        2 => select(vec![
            "6552", "6553", "6554", "65529", "65530", "65531", "65532", "65533", "65534", "65535", "65536", "65537", "65539",
            "65540", "065534", "0065535", "655350", "655349", "99999", "100000", "32767", "32768", "4294967295", "4294967296",
        ])
        .prop_map(|s| s.to_owned()),
    ];
    let sep = prop_oneof![4 => Just(';'), 1 => Just(':')];
    let count = prop_oneof![6 => 0usize..=5, 2 => 6usize..=30, 2 => 31usize..=34, 1 => 35usize..=40];
    count
        .prop_flat_map(move |n| (vec(value.clone(), n), vec(sep.clone(), n)))
        .prop_map(|(vals, seps)| {
            let mut s = String::new();
            for (i, v) in vals.iter().enumerate() {
                if i > 0 {
                    s.push(seps[i]);
                }
                s.push_str(v);
            }
            s.into_bytes()
        })
        .boxed()
}

fn intermediates() -> BoxedStrategy<Vec<u8>> {
    prop_oneof![
        6 => Just(vec![]),
        2 => vec(0x20u8..=0x2f, 1..=2),
        1 => vec(0x20u8..=0x2f, 3..=4),
    ]
    .boxed()
}

pub fn csi_seq() -> BoxedStrategy<Vec<u8>> {
    (
        prop_oneof![5 => Just(None), 1 => select(vec![b'<', b'=', b'>', b'?']).prop_map(Some)],
        csi_params(),
        intermediates(),
        prop_oneof![3 => select(vec![b'm', b'H', b'J', b'K', b'A', b'h', b'l', b'@', b'~']), 1 => 0x40u8..=0x7e],
    )
        .prop_map(|(marker, params, inter, fin)| {
            let mut v = vec![0x1b, b'['];
            v.extend(marker);
            v.extend(params);
            v.extend(inter);
            v.push(fin);
            v
        })
        .boxed()
}

pub fn esc_seq() -> BoxedStrategy<Vec<u8>> {
    (intermediates(), 0x30u8..=0x7e)
        .prop_map(|(inter, fin)| {
            let fin = if inter.is_empty() && matches!(fin, 0x50 | 0x58 | 0x5b | 0x5d | 0x5e | 0x5f)
            {
                b'c'
            } else {
                fin
            };
            let mut v = vec![0x1b];
            v.extend(inter);
            v.push(fin);
            v
        })
        .boxed()
}

#[derive(Clone, Copy, Debug)]
pub enum Term {
    Bel,
    St7,
    St8,
    Can,
    Sub,
    None,
}

fn term(with_8bit: bool) -> BoxedStrategy<Term> {
    if with_8bit {
        select(vec![
            Term::Bel,
            Term::Bel,
            Term::St7,
            Term::St7,
            Term::St8,
            Term::Can,
            Term::Sub,
            Term::None,
        ])
        .boxed()
    } else {
        select(vec![
            Term::Bel,
            Term::Bel,
            Term::St7,
            Term::St7,
            Term::Can,
            Term::Sub,
            Term::None,
        ])
        .boxed()
    }
}

fn push_term(v: &mut Vec<u8>, t: Term) {
    match t {
        Term::Bel => v.push(0x07),
        Term::St7 => v.extend_from_slice(b"\x1b\\"),
        Term::St8 => v.push(0x9c),
        Term::Can => v.push(0x18),
        Term::Sub => v.push(0x1a),
        Term::None => {}
    }
}

fn string_payload(utf8_only: bool) -> BoxedStrategy<Vec<u8>> {
    let piece = if utf8_only {
        prop_oneof![
            4 => "[ -~]{0,6}".prop_map(String::into_bytes),
            1 => text_utf8(),
        ]
        .boxed()
    } else {
        prop_oneof![
            4 => "[ -~]{0,6}".prop_map(String::into_bytes),
            1 => text_utf8(),
            1 => vec(0x80u8..=0xff, 1..=3),
            1 => vec(select(vec![0x00u8, 0x05, 0x09, 0x0a, 0x0d, 0x7f]), 1..=2),
        ]
        .boxed()
    };
    vec(piece, 0..=3).prop_map(|v| v.concat()).boxed()
}

pub fn osc_seq(utf8_only: bool, with_8bit: bool) -> BoxedStrategy<Vec<u8>> {
    let fields = prop_oneof![5 => 0usize..=4, 2 => 14usize..=18, 1 => 5usize..=20];
    (
        fields.prop_flat_map(move |n| vec(string_payload(utf8_only), n)),
        term(with_8bit),
    )
        .prop_map(|(fields, t)| {
            let mut v = vec![0x1b, b']'];
            for (i, f) in fields.iter().enumerate() {
                if i > 0 {
                    v.push(b';');
                }
                // ';' inside a field would just be another separator
                v.extend(f.iter().copied());
            }
            push_term(&mut v, t);
            v
        })
        .boxed()
}

pub fn dcs_seq(utf8_only: bool, with_8bit: bool) -> BoxedStrategy<Vec<u8>> {
    (
        prop_oneof![5 => Just(None), 1 => select(vec![b'<', b'=', b'>', b'?']).prop_map(Some)],
        csi_params(),
        intermediates(),
        0x40u8..=0x7e,
        string_payload(utf8_only),
        term(with_8bit),
    )
        .prop_map(|(marker, params, inter, fin, payload, t)| {
            let mut v = vec![0x1b, b'P'];
            v.extend(marker);
            v.extend(params);
            v.extend(inter);
            v.push(fin);
            v.extend(payload);
            push_term(&mut v, t);
            v
        })
        .boxed()
}

pub fn sos_seq(utf8_only: bool, with_8bit: bool) -> BoxedStrategy<Vec<u8>> {
    (
        select(vec![b'X', b'^', b'_']),
        string_payload(utf8_only),
        term(with_8bit),
    )
        .prop_map(|(k, payload, t)| {
            let mut v = vec![0x1b, k];
            v.extend(payload);
            push_term(&mut v, t);
            v
        })
        .boxed()
}

/// OSC / DCS / SOS / PM / APC with a payload of 200..1600 bytes around the
/// usual block and buffer sizes, optionally with a few separators, a
/// multi-byte character or (8-bit streams) a raw byte somewhere inside.
pub fn long_string(utf8_only: bool, with_8bit: bool) -> BoxedStrategy<Vec<u8>> {
    (
        select(vec![&b"\x1b]"[..], b"\x1bP", b"\x1bP1;2$q", b"\x1bX", b"\x1b^", b"\x1b_"]),
        prop_oneof![3 => select(vec![200usize, 254, 255, 256, 257, 258, 300, 511, 512, 513, 1022, 1023, 1024, 1025, 1026, 1500]), 1 => 200usize..1600],
        select(vec![b'a', b'~', b' ', b'0', b';']),
        proptest::collection::vec((any::<u16>(), select(vec![0u8, 1, 2, 3, 4])), 0..4),
        term(with_8bit),
        "[ -~]{0,3}",
    )
        .prop_map(move |(intro, len, fill, extras, t, tail)| {
            // cells, so that replacements never cut a multi-byte character
            let mut cells: Vec<Vec<u8>> = vec![vec![fill]; len];
            for (frac, kind) in extras {
                let pos = (frac as usize * len) >> 16;
                cells[pos] = match kind {
                    0 => vec![b';'],
                    1 => vec![b'x'],
                    2 => "\u{e9}".as_bytes().to_vec(),
                    // an 8-bit ST in the middle: ends DCS/SOS/PM/APC, what follows is text
                    3 if !utf8_only && with_8bit => vec![0x9c],
                    3 => "\u{9c}".as_bytes().to_vec(),
                    _ => vec![b' '],
                };
            }
            let payload: Vec<u8> = cells.concat();
            let mut v = intro.to_vec();
            v.extend(payload);
            push_term(&mut v, t);
            v.extend(tail.into_bytes());
            v
        })
        .boxed()
}

/// A long run of visible text (block-size boundaries), optionally with a few
/// multi-byte characters, whitespace controls or digits/separators inside.
pub fn long_text(ascii_only: bool) -> BoxedStrategy<Vec<u8>> {
    (
        prop_oneof![3 => select(vec![63usize, 64, 65, 127, 128, 129, 255, 256, 257, 511, 512, 513, 1023, 1024, 1025, 4095, 4096, 4097]), 1 => 50usize..3000],
        select(vec![b'a', b' ', b'0', b'x', b';']),
        proptest::collection::vec((any::<u16>(), 0u8..5), 0..5),
    )
        .prop_map(move |(len, fill, extras)| {
            let mut cells: Vec<Vec<u8>> = vec![vec![fill]; len];
            for (frac, kind) in extras {
                let pos = (frac as usize * len) >> 16;
                cells[pos] = match kind {
                    0 if !ascii_only => "\u{e9}".as_bytes().to_vec(),
                    1 if !ascii_only => "\u{1f600}".as_bytes().to_vec(),
                    2 => vec![b'\n'],
                    3 => vec![b'\t'],
                    _ => vec![b'm'],
                };
            }
            cells.concat()
        })
        .boxed()
}

/// A run of visible text of 64 KiB and more (16-bit length boundaries and beyond the size of
/// pipe buffers and typical internal chunks), built like `long_text`.
pub fn huge_text(ascii_only: bool) -> BoxedStrategy<Vec<u8>> {
    (
        select(vec![65_534usize, 65_535, 65_536, 65_537, 70_000, 131_071, 131_072, 131_073, 200_000]),
        select(vec![b'a', b' ', b'0', b'x', b';']),
        proptest::collection::vec((any::<u16>(), 0u8..5), 0..5),
    )
        .prop_map(move |(len, fill, extras)| {
            let mut out = vec![fill; len];
            // a few foreign cells; multi-byte ones replace as many fill bytes as they are long
            for (frac, kind) in extras {
                let pos = ((frac as usize * len) >> 16).min(len - 4);
                let cell: &[u8] = match kind {
                    0 if !ascii_only => "\u{e9}".as_bytes(),
                    1 if !ascii_only => "\u{1f600}".as_bytes(),
                    2 => b"\n",
                    3 => b"\t",
                    _ => b"m",
                };
                if out[pos..pos + cell.len()].iter().all(|b| *b == fill) {
                    out[pos..pos + cell.len()].copy_from_slice(cell);
                }
            }
            out
        })
        .boxed()
}

/// put a huge text item into a stream at a relative position
pub fn insert_huge(items: &mut Vec<Item>, bytes: Vec<u8>, frac: u16) {
    let pos = (frac as usize * (items.len() + 1)) >> 16;
    items.insert(pos, Item::Raw { class: "huge-text", bytes });
}

pub fn bad_utf8() -> BoxedStrategy<Vec<u8>> {
    prop_oneof![
        vec(0x80u8..=0xbf, 1..=2),                       // lone continuation
        select(vec![vec![0xc3u8], vec![0xe2, 0x82], vec![0xf0, 0x9f, 0x98], vec![0xe2], vec![0xf0]]), // truncated
        select(vec![vec![0xc3u8, 0xc3, 0xa9], vec![0xe2, 0xc3, 0xa9], vec![0xf0, 0x9f, 0xe2, 0x82, 0xac]]), // lead+lead
        select(vec![vec![0xc0u8, 0x80], vec![0xc1, 0xbf], vec![0xe0, 0x80, 0x80], vec![0xf0, 0x80, 0x80, 0x80]]), // overlong
        select(vec![vec![0xedu8, 0xa0, 0x80], vec![0xed, 0xbf, 0xbf]]), // surrogates
        select(vec![vec![0xf4u8, 0x90, 0x80, 0x80], vec![0xf5], vec![0xf8, 0x88, 0x80, 0x80, 0x80], vec![0xfe], vec![0xff]]),
        // a character interrupted by a control / escape
        (select(vec![vec![0xc3u8], vec![0xe2, 0x82], vec![0xf0, 0x9f]]), select(vec![0x07u8, 0x0a, 0x18, 0x1b, 0x7f, b'a']))
            .prop_map(|(mut l, b)| { l.push(b); l }),
    ]
    .boxed()
}

#[derive(Clone, Copy, Debug)]
pub struct StreamCfg {
    /// generate only valid UTF-8 (no C1 raw bytes, no malformed characters,
    /// no 8-bit string terminator)
    pub utf8_only: bool,
    /// generate only bytes < 0x80
    pub seven_bit: bool,
    pub del: bool,
    /// CAN/SUB, truncated and embedded-control sequences
    pub broken: bool,
    /// C0 controls other than whitespace
    pub c0: bool,
    /// OSC / DCS / SOS-PM-APC strings
    pub strings: bool,
    /// whitespace controls TAB LF FF CR
    pub ws: bool,
    pub max_items: usize,
    /// weight of SGR items relative to other sequences
    pub sgr_weight: u32,
}

impl StreamCfg {
    pub const ALL: StreamCfg = StreamCfg {
        utf8_only: false,
        seven_bit: false,
        del: true,
        broken: true,
        c0: true,
        strings: true,
        ws: true,
        max_items: 40,
        sgr_weight: 2,
    };
    pub const UTF8: StreamCfg = StreamCfg {
        utf8_only: true,
        ..StreamCfg::ALL
    };
    pub const SEVEN_BIT: StreamCfg = StreamCfg {
        utf8_only: true,
        seven_bit: true,
        ..StreamCfg::ALL
    };
}

/// a whole sequence of any kind (used for truncation / embedding)
fn any_sequence(cfg: StreamCfg) -> BoxedStrategy<Vec<u8>> {
    let e8 = !cfg.utf8_only && !cfg.seven_bit;
    let u = cfg.utf8_only;
    prop_oneof![
        3 => csi_seq(),
        3 => sgr_groups().prop_map(|g| render_sgr(&g)),
        2 => esc_seq(),
        2 => osc_seq(u, e8),
        2 => dcs_seq(u, e8),
        1 => sos_seq(u, e8),
    ]
    .boxed()
}

pub fn item(cfg: StreamCfg) -> BoxedStrategy<Item> {
    let e8 = !cfg.utf8_only && !cfg.seven_bit;
    let u = cfg.utf8_only;
    let mut opts: Vec<(u32, BoxedStrategy<Item>)> = vec![
        (6, raw("text-ascii", text_ascii())),
        (3, raw("csi", csi_seq())),
        (cfg.sgr_weight, sgr_groups().prop_map(Item::Sgr).boxed()),
        (2, raw("esc", esc_seq())),
    ];
    if cfg.ws {
        opts.push((3, raw("ws", ws_byte().prop_map(|b| vec![b]))));
    }
    if !cfg.seven_bit {
        opts.push((3, raw("text-utf8", text_utf8())));
    }
    if cfg.c0 {
        opts.push((2, raw("c0", c0_byte().prop_map(|b| vec![b]))));
    }
    if cfg.del {
        opts.push((1, raw("del", Just(vec![0x7f]))));
    }
    if cfg.strings {
        opts.push((2, raw("osc", osc_seq(u, e8))));
        opts.push((2, raw("dcs", dcs_seq(u, e8))));
        opts.push((1, raw("sos-pm-apc", sos_seq(u, e8))));
    }
    opts.push((1, raw("long-text", long_text(cfg.seven_bit))));
    if cfg.strings {
        // string sequences with long payloads (block-size / buffer-size boundaries)
        opts.push((1, raw("long-string", long_string(u, e8))));
    }
    if cfg.broken {
        opts.push((1, raw("can-sub", select(vec![vec![0x18u8], vec![0x1a]]))));
        // truncated: a proper prefix of a sequence
        opts.push((
            2,
            raw(
                "truncated",
                (any_sequence(cfg), any::<prop::sample::Index>()).prop_map(move |(s, ix)| {
                    let mut k = (1 + ix.index(s.len().max(2) - 1)).min(s.len());
                    if cfg.utf8_only {
                        // keep the stream valid UTF-8: cut at a character boundary
                        while k > 1 && k < s.len() && (0x80..=0xbf).contains(&s[k]) {
                            k -= 1;
                        }
                    }
                    s[..k].to_vec()
                }),
            ),
        ));
        // embedded: a control or whitespace inserted inside a sequence
        opts.push((
            2,
            raw(
                "embedded",
                (
                    any_sequence(cfg),
                    any::<prop::sample::Index>(),
                    select(vec![0x09u8, 0x0a, 0x0d, 0x0c, 0x00, 0x07, 0x08, 0x7f, 0x1b, 0x18]),
                )
                    .prop_map(|(mut s, ix, c)| {
                        let mut k = (1 + ix.index(s.len().max(2) - 1)).min(s.len());
                        // never split a multi-byte character
                        while k > 1 && k < s.len() && (0x80..=0xbf).contains(&s[k]) {
                            k -= 1;
                        }
                        s.insert(k, c);
                        s
                    }),
            ),
        ));
    }
    if e8 {
        opts.push((1, raw("c1-raw", (0x80u8..=0x9f).prop_map(|b| vec![b]))));
        opts.push((2, raw("bad-utf8", bad_utf8())));
    }
    proptest::strategy::Union::new_weighted(opts).boxed()
}

pub fn stream(cfg: StreamCfg) -> BoxedStrategy<Vec<Item>> {
    (vec(item(cfg), 0..=cfg.max_items), echo_plan()).prop_map(|(items, plan)| echo(items, &plan)).boxed()
}

/// Repetition plan: which items are repeated where. Independent random items practically never
/// repeat, yet "the same thing twice in a row" and "back to an earlier value" (A B A) are what a
/// stream of real output is full of.
fn echo_plan() -> BoxedStrategy<Vec<(u16, u8)>> {
    prop_oneof![
        3 => Just(vec![]),
        2 => vec((any::<u16>(), 0u8..6), 1..=3),
    ]
    .boxed()
}

/// apply a repetition plan: (position, kind) with kind 0 = repeat the item directly, 1 = repeat it
/// after its successor (A B A), 2 = repeat the pair (A B A B), 3 = repeat the item three times,
/// 4 / 5 = the item, a style change undone at once, the item again
fn echo(mut items: Vec<Item>, plan: &[(u16, u8)]) -> Vec<Item> {
    for (frac, kind) in plan {
        if items.is_empty() {
            break;
        }
        let i = (*frac as usize * items.len()) >> 16;
        let a = items[i].clone();
        match kind {
            0 => items.insert(i + 1, a),
            1 => {
                let at = (i + 2).min(items.len());
                items.insert(at, a);
            }
            2 => {
                if i + 1 < items.len() {
                    let b = items[i + 1].clone();
                    items.insert(i + 2, a);
                    items.insert(i + 3, b);
                } else {
                    items.insert(i + 1, a);
                }
            }
            3 => {
                items.insert(i + 1, a.clone());
                items.insert(i + 2, a);
            }
            _ => {
                // the item, a style change that is undone at once (there and back again with nothing in
                // between), the item again: `A ESC[31m ESC[39m A` / `A ESC[44m ESC[49m A`
                let (set, unset) = if *kind == 4 { (31, 39) } else { (44, 49) };
                items.insert(i + 1, Item::Sgr(vec![Group::Single { code: set, zeros: 0 }]));
                items.insert(i + 2, Item::Sgr(vec![Group::Single { code: unset, zeros: 0 }]));
                items.insert(i + 3, a);
            }
        }
    }
    items
}

pub fn render(items: &[Item]) -> Vec<u8> {
    let mut v = vec![];
    for i in items {
        v.extend(i.bytes());
    }
    v
}

pub fn count_classes(items: &[Item], acc: &mut crate::rt::Acc) {
    for i in items {
        acc.class(i.class());
    }
}

/// (No longer used by the checks since the F18 repair; kept for experiments.)
/// Remove SGR groups that would replace one underline kind by another
/// without a reset in between (DESIGN.md §3.3). Returns the number of groups
/// removed. `4:0`, `0` and re-asserting the same kind are kept.
pub fn drop_underline_replacements(items: &mut Vec<Item>) -> u64 {
    let mut st = MStyle::default();
    let mut removed = 0;
    for it in items.iter_mut() {
        if let Item::Sgr(groups) = it {
            let mut kept = Vec::with_capacity(groups.len());
            for g in groups.drain(..) {
                let before = st.effects & UL_KINDS;
                let after_st = apply_group_in_context(st, &kept, &g);
                let after = after_st.effects & UL_KINDS;
                if before != 0 && after != 0 && before != after {
                    removed += 1;
                    continue;
                }
                kept.push(g);
                st = after_st;
            }
            if kept.is_empty() {
                kept.push(Group::Unknown(50));
            }
            *groups = kept;
        }
    }
    removed
}

fn apply_group_in_context(st: MStyle, _kept: &[Group], g: &Group) -> MStyle {
    // groups are self-contained (extended colours carry their own values), so
    // a group's effect does not depend on its neighbours
    apply_sgr(st, &g.parsed())
}

// ---------------------------------------------------------------- G-CHUNK

/// random cut points for an input of length `len` (sorted, strictly inside)
pub fn cuts(len: usize) -> BoxedStrategy<Vec<usize>> {
    if len < 2 {
        return Just(vec![]).boxed();
    }
    prop_oneof![
        1 => Just(vec![]),
        1 => Just((1..len).collect::<Vec<_>>()),
        3 => vec(1usize..len, 1..=4).prop_map(|mut v| { v.sort(); v.dedup(); v }),
        3 => (1usize..=8).prop_flat_map(move |k| vec(1usize..=k, 1..=(len.min(200)))).prop_map(move |sizes| {
            let mut v = vec![]; let mut p = 0;
            for s in sizes { p += s; if p >= len { break; } v.push(p); }
            v
        }),
    ]
    .boxed()
}

/// positions strictly inside escape sequences (by the reference machine):
/// offsets `i` such that after `bytes[..i]` the machine is not in ground
pub fn interior_cuts(bytes: &[u8]) -> Vec<usize> {
    let mut m = crate::vt::Machine::new();
    let mut v = vec![];
    for (i, &b) in bytes.iter().enumerate() {
        if i > 0 && m.st != crate::vt::St::Ground {
            v.push(i);
        }
        m.feed(b);
    }
    v
}

// ------------------------------------------------- SGR-centred streams (C07/C14/C18)

/// CSI sequences that are *not* SGR: a final other than `m`, or `m` with a
/// private marker and/or intermediates (e.g. xterm's `CSI > 4 ; 2 m`).
pub fn non_sgr_csi() -> BoxedStrategy<Vec<u8>> {
    let small_params = || "([0-9]{0,3}(;[0-9]{0,3}){0,4})?".prop_map(String::into_bytes);
    prop_oneof![
        // other finals
        3 => (small_params(), select(vec![b'H', b'J', b'K', b'A', b'B', b'C', b'D', b'h', b'l', b'n', b'r', b's', b'u', b'@', b'~', b'M', b'p']))
            .prop_map(|(p, f)| { let mut v = vec![0x1b, b'[']; v.extend(p); v.push(f); v }),
        // private marker + m
        2 => (select(vec![b'<', b'=', b'>', b'?']), small_params())
            .prop_map(|(m, p)| { let mut v = vec![0x1b, b'[', m]; v.extend(p); v.push(b'm'); v }),
        // intermediate + m
        1 => (small_params(), vec(0x20u8..=0x2f, 1..=2))
            .prop_map(|(p, i)| { let mut v = vec![0x1b, b'[']; v.extend(p); v.extend(i); v.push(b'm'); v }),
        // private marker, other final (DECSET etc.)
        1 => (small_params(), select(vec![b'h', b'l'])).prop_map(|(p, f)| { let mut v = vec![0x1b, b'[', b'?']; v.extend(p); v.push(f); v }),
    ]
    .boxed()
}

#[derive(Clone, Copy, Debug)]
pub struct SgrStreamCfg {
    pub max_items: usize,
    /// non-SGR sequences (CSI, OSC, DCS, ESC, SOS/PM/APC)
    pub others: bool,
    pub c0: bool,
    /// extra text characters (XML specials etc.) for C14
    pub xml_text: bool,
    /// only one attribute group per SGR sequence
    pub single_group: bool,
}

pub fn xml_text() -> BoxedStrategy<Vec<u8>> {
    vec(
        select(vec![
            "&", "<", ">", "\"", "'", "]]>", "&amp;", "&#10;", "<!--", "-->", "<tspan>", "\t", " ", "  ", "a", "é", "漢",
            "\u{0301}", "\u{200b}", "\u{200d}", "😀", "\u{85}", "\u{9b}", "\u{a0}", "\u{2028}", "\u{fffd}", "\u{10ffff}",
        ]),
        1..=4,
    )
    .prop_map(|v| v.concat().into_bytes())
    .boxed()
}

pub fn sgr_item(cfg: SgrStreamCfg) -> BoxedStrategy<Item> {
    let mut opts: Vec<(u32, BoxedStrategy<Item>)> = vec![
        (5, raw("text-ascii", text_ascii())),
        (3, raw("text-utf8", text_utf8())),
        (2, raw("ws", ws_byte().prop_map(|b| vec![b]))),
        (
            8,
            if cfg.single_group {
                sgr_group().prop_map(|g| Item::Sgr(vec![g])).boxed()
            } else {
                sgr_groups().prop_map(Item::Sgr).boxed()
            },
        ),
    ];
    if cfg.c0 {
        opts.push((1, raw("c0", c0_byte().prop_map(|b| vec![b]))));
    }
    opts.push((1, raw("long-text", long_text(false).prop_map(|mut v| { v.truncate(700); while std::str::from_utf8(&v).is_err() { v.pop(); } v }))));
    if cfg.xml_text {
        opts.push((4, raw("text-xml", xml_text())));
        opts.push((1, raw("crlf", Just(b"\r\n".to_vec()))));
        opts.push((1, raw("lf", Just(b"\n".to_vec()))));
    }
    if cfg.others {
        opts.push((2, raw("other-csi", non_sgr_csi())));
        opts.push((1, raw("other-esc", esc_seq())));
        opts.push((1, raw("other-osc", osc_seq(true, false))));
        opts.push((1, raw("other-dcs", dcs_seq(true, false))));
        opts.push((1, raw("other-sos", sos_seq(true, false))));
    }
    proptest::strategy::Union::new_weighted(opts).boxed()
}

/// Valid-UTF-8 stream of text and SGR sequences of the C07 domain, with
/// underline-kind replacements removed (second component = how many groups
/// were removed).
pub fn sgr_stream(cfg: SgrStreamCfg) -> BoxedStrategy<(Vec<Item>, u64)> {
    (vec(sgr_item(cfg), 0..=cfg.max_items), echo_plan())
        .prop_map(|(items, plan)| {
            let items = echo(items, &plan);
            // strings that are not terminated would swallow what follows; that
            // is fine for the oracle (the reference parser sees the same) but
            // makes cases trivial, so terminate dangling strings with BEL/ST
            // (until the F18 repair, groups replacing one underline kind by another were
            // removed here; the second component is kept for the evidence format)
            (items, 0)
        })
        .boxed()
}

pub fn is_other(item: &Item) -> bool {
    item.class().starts_with("other-")
}

#[cfg(test)]
mod tests {
    use super::*;
    use crate::drive::sample_values;

    #[test]
    fn utf8_streams_are_valid_utf8() {
        for seed in 0..8u64 {
            for items in sample_values(seed, 20_000, &stream(StreamCfg::UTF8)) {
                let b = render(&items);
                assert!(std::str::from_utf8(&b).is_ok(), "UTF8 cfg produced invalid UTF-8: {:?}", crate::rt::esc(&b));
            }
            for items in sample_values(seed, 5_000, &stream(StreamCfg { max_items: 30, ..StreamCfg::SEVEN_BIT })) {
                let b = render(&items);
                assert!(std::str::from_utf8(&b).is_ok());
            }
            let cfg = SgrStreamCfg { max_items: 20, others: true, c0: true, xml_text: true, single_group: false };
            for (items, _) in sample_values(seed, 10_000, &sgr_stream(cfg)) {
                let b = render(&items);
                assert!(std::str::from_utf8(&b).is_ok(), "sgr_stream produced invalid UTF-8: {:?}", crate::rt::esc(&b));
            }
        }
    }
}
