//! Drivers: proptest runner with a fixed seed (shrinking included),
//! bounded-exhaustive string enumeration, ddmin byte shrinker.

use crate::rt::{derive_seed, par, workers, Acc};
use proptest::strategy::{Strategy, ValueTree};
use proptest::test_runner::{Config, RngAlgorithm, TestCaseError, TestError, TestRng, TestRunner};
use serde_json::Value;
use std::cell::{Cell, RefCell};

pub fn runner(seed: u64, cases: u32) -> TestRunner {
    let mut bytes = [0u8; 32];
    let mut s = seed;
    for chunk in bytes.chunks_mut(8) {
        s = crate::rt::mix(s);
        chunk.copy_from_slice(&s.to_le_bytes());
    }
    let config = Config {
        cases,
        failure_persistence: None,
        max_shrink_iters: 20_000,
        max_local_rejects: 1 << 20,
        max_global_rejects: 1 << 20,
        ..Config::default()
    };
    TestRunner::new_with_rng(config, TestRng::from_seed(RngAlgorithm::ChaCha, &bytes))
}

/// What a property body reports for one case.
pub struct Verdict {
    pub result: Result<(), String>,
    /// Some(digest) when the case is non-trivial by the property's rule
    pub nontrivial: Option<u64>,
}

impl Verdict {
    pub fn ok(nontrivial: Option<u64>) -> Self {
        Verdict {
            result: Ok(()),
            nontrivial,
        }
    }
}

/// Run `cases` generated cases on one worker; on failure proptest shrinks and
/// the minimal case is recorded in `acc`. Counting stops at the first failure
/// (the closure is re-run during shrinking).
pub fn prop_worker<S: Strategy>(
    acc: &mut Acc,
    sub: &str,
    seed: u64,
    cases: u32,
    strat: &S,
    body: impl Fn(&S::Value, &mut Acc) -> Verdict,
    to_json: impl Fn(&S::Value) -> Value,
) where
    S::Value: Clone,
{
    let mut r = runner(seed, cases);
    let failed = Cell::new(false);
    let accc = RefCell::new(acc);
    let mut scratch = Acc::new();
    let scratchc = RefCell::new(&mut scratch);
    let res = r.run(strat, |v| {
        let verdict = if failed.get() {
            let mut s = scratchc.borrow_mut();
            crate::rt::guarded(|| Ok(body(&v, &mut s)))
        } else {
            let mut a = accc.borrow_mut();
            a.eval();
            let vd = crate::rt::guarded(|| Ok(body(&v, &mut a)));
            if let Ok(vd) = &vd {
                if let Some(d) = vd.nontrivial {
                    a.nontrivial(d);
                }
                a.sample(|| to_json(&v));
            }
            vd
        };
        match verdict {
            Ok(Verdict { result: Ok(()), .. }) => Ok(()),
            Ok(Verdict {
                result: Err(m), ..
            }) => {
                failed.set(true);
                Err(TestCaseError::fail(m))
            }
            Err(m) => {
                failed.set(true);
                Err(TestCaseError::fail(m))
            }
        }
    });
    let acc = accc.into_inner();
    match res {
        Ok(()) => {}
        Err(TestError::Fail(reason, value)) => {
            acc.fail(sub, to_json(&value), reason.message().to_owned());
        }
        Err(TestError::Abort(reason)) => {
            // too many rejects etc: a harness problem, never a violation
            acc.class("proptest-abort");
            eprintln!("warning: proptest aborted in {sub}: {}", reason.message());
        }
    }
}

/// Parallel version: `total` cases split over all workers.
pub fn prop_par<S: Strategy>(
    sub: &str,
    seed: u64,
    total: u32,
    strat: impl Fn() -> S + Sync,
    body: impl Fn(&S::Value, &mut Acc) -> Verdict + Sync,
    to_json: impl Fn(&S::Value) -> Value + Sync,
) -> Vec<Acc>
where
    S::Value: Clone,
{
    let n = workers();
    par(n, |w| {
        let mut acc = Acc::new();
        let share = total / n as u32 + if (w as u32) < total % n as u32 { 1 } else { 0 };
        if share > 0 {
            prop_worker(
                &mut acc,
                sub,
                derive_seed(seed, sub, w),
                share,
                &strat(),
                &body,
                &to_json,
            );
        }
        acc
    })
}

/// Like `stream_par`, for inputs of 64 KiB and more: a short G-STREAM with one huge printable
/// run inserted (see `gen::huge_text`). Failures shrink through the generator's parameters (not
/// byte-wise); the case file holds the bytes.
pub fn huge_par<A: Strategy>(
    sub: &str,
    seed: u64,
    total: u32,
    cfg: crate::gen::StreamCfg,
    aux: impl Fn() -> A + Sync,
    body: impl Fn(&[u8], &A::Value, &mut Acc) -> Verdict + Sync,
    aux_json: impl Fn(&A::Value) -> Value + Sync,
) -> Vec<Acc>
where
    A::Value: Clone + std::fmt::Debug,
{
    use proptest::prelude::*;
    let ascii = cfg.seven_bit;
    prop_par(
        sub,
        seed,
        total,
        || {
            (crate::gen::stream(crate::gen::StreamCfg { max_items: cfg.max_items.min(8), ..cfg }), crate::gen::huge_text(ascii), any::<u16>(), aux()).prop_map(|(mut items, big, frac, a)| {
                crate::gen::insert_huge(&mut items, big, frac);
                (crate::gen::render(&items), a)
            })
        },
        |(bytes, a), acc| body(bytes, a, acc),
        |(bytes, a)| serde_json::json!({"hex": crate::rt::hex(bytes), "length": bytes.len(), "aux": aux_json(a)}),
    )
}

/// Generate `n` values from a strategy without running a property (used to
/// build fixed input sets deterministically from the seed).
pub fn sample_values<S: Strategy>(seed: u64, n: usize, strat: &S) -> Vec<S::Value> {
    let mut r = runner(seed, n as u32);
    (0..n)
        .map(|_| strat.new_tree(&mut r).expect("strategy").current())
        .collect()
}

/// Enumerate all strings of exactly `len` symbols over `alpha` (symbols are
/// byte strings), slice `w` of `n`, calling `f` for each. Enumeration order is
/// index order, so results merged in worker order are deterministic.
pub fn enum_strings(
    alpha: &[&[u8]],
    len: usize,
    w: usize,
    n: usize,
    mut f: impl FnMut(&[u8]) -> bool,
) {
    let k = alpha.len() as u128;
    let total: u128 = k.pow(len as u32);
    let lo = total * w as u128 / n as u128;
    let hi = total * (w as u128 + 1) / n as u128;
    if lo >= hi {
        return;
    }
    // decode lo into digits (most significant first)
    let mut digits = vec![0usize; len];
    let mut x = lo;
    for i in (0..len).rev() {
        digits[i] = (x % k) as usize;
        x /= k;
    }
    let mut buf: Vec<u8> = Vec::with_capacity(len * 4);
    let mut i = lo;
    loop {
        buf.clear();
        for &d in &digits {
            buf.extend_from_slice(alpha[d]);
        }
        if !f(&buf) {
            return;
        }
        i += 1;
        if i >= hi {
            return;
        }
        // increment odometer
        let mut p = len;
        while p > 0 {
            p -= 1;
            digits[p] += 1;
            if digits[p] < alpha.len() {
                break;
            }
            digits[p] = 0;
        }
    }
}

pub fn count_strings(alpha_len: usize, len: usize) -> u64 {
    (alpha_len as u64).pow(len as u32)
}

/// ddmin-style shrinker for byte strings: remove blocks, remove single
/// bytes, then lower byte values towards simpler representatives.
pub fn shrink_bytes(input: &[u8], fails: impl Fn(&[u8]) -> bool) -> Vec<u8> {
    let mut cur = input.to_vec();
    if !fails(&cur) {
        return cur;
    }
    let mut budget = 20_000usize;
    loop {
        let mut progress = false;
        // block removal
        let mut block = cur.len() / 2;
        while block >= 1 && budget > 0 {
            let mut i = 0;
            while i + block <= cur.len() && budget > 0 {
                let mut cand = cur[..i].to_vec();
                cand.extend_from_slice(&cur[i + block..]);
                budget -= 1;
                if fails(&cand) {
                    cur = cand;
                    progress = true;
                } else {
                    i += 1;
                }
            }
            block /= 2;
        }
        // simplify bytes
        for i in 0..cur.len() {
            for rep in [b'a', b'0', b' '] {
                if budget == 0 {
                    break;
                }
                if cur[i] != rep && cur[i] > rep {
                    let mut cand = cur.clone();
                    cand[i] = rep;
                    budget -= 1;
                    if fails(&cand) {
                        cur = cand;
                        progress = true;
                        break;
                    }
                }
            }
        }
        if !progress || budget == 0 {
            return cur;
        }
    }
}

/// All partitions of `n` positions: bit i of `mask` set = cut after byte i.
pub fn chunks_from_mask(data: &[u8], mask: u64) -> Vec<&[u8]> {
    let mut out = Vec::new();
    let mut start = 0;
    for i in 0..data.len().saturating_sub(1) {
        if mask >> i & 1 == 1 {
            out.push(&data[start..=i]);
            start = i + 1;
        }
    }
    out.push(&data[start..]);
    out
}

/// Split at the given sorted cut offsets (0 < c < len).
pub fn chunks_from_cuts<'a>(data: &'a [u8], cuts: &[usize]) -> Vec<&'a [u8]> {
    let mut out = Vec::new();
    let mut start = 0;
    for &c in cuts {
        if c > start && c < data.len() {
            out.push(&data[start..c]);
            start = c;
        }
    }
    out.push(&data[start..]);
    out
}

/// Bounded-exhaustive driver over byte strings: all strings of each length
/// in `lens` over `alpha`, split over the workers; stops at the first
/// failing length; the failing input is shrunk with `shrink_bytes` and
/// recorded as `{"hex": …}`.
pub fn enum_par(
    sub: &str,
    alpha: &[&[u8]],
    lens: &[usize],
    body: impl Fn(&[u8], &mut Acc) -> Result<(), String> + Sync,
) -> Vec<Acc> {
    let n = workers();
    let mut all: Vec<Acc> = Vec::new();
    for &len in lens {
        let accs = par(n, |w| {
            let mut acc = Acc::new();
            enum_strings(alpha, len, w, n, |s| {
                acc.eval();
                match crate::rt::guarded(|| body(s, &mut acc)) {
                    Ok(()) => true,
                    Err(m) => {
                        let min = shrink_bytes(s, |c| {
                            let mut scratch = Acc::new();
                            crate::rt::guarded(|| body(c, &mut scratch)).is_err()
                        });
                        let mut scratch = Acc::new();
                        let msg = crate::rt::guarded(|| body(&min, &mut scratch))
                            .err()
                            .unwrap_or(m);
                        acc.fail(sub, serde_json::json!({"hex": crate::rt::hex(&min)}), msg);
                        false
                    }
                }
            });
            acc
        });
        let failed = accs.iter().any(|a| a.failed());
        all.extend(accs);
        if failed {
            break;
        }
    }
    all
}

pub fn hex_case(bytes: &[u8]) -> Value {
    serde_json::json!({"hex": crate::rt::hex(bytes), "text": crate::rt::esc(bytes)})
}

pub fn case_bytes(case: &Value) -> Vec<u8> {
    crate::rt::unhex(case.get("hex").and_then(|h| h.as_str()).unwrap_or(""))
}

/// Grammar-stream driver: generates G-STREAM item lists (optionally paired
/// with an auxiliary value), renders them and hands the bytes to `body`.
/// A failure is shrunk by proptest at item level and then by `shrink_bytes`
/// at byte level; the recorded case is `{"hex", "aux"}`.
pub fn stream_par<A: Strategy>(
    sub: &str,
    seed: u64,
    total: u32,
    cfg: crate::gen::StreamCfg,
    aux: impl Fn() -> A + Sync,
    body: impl Fn(&[u8], &A::Value, &mut Acc) -> Verdict + Sync,
    aux_json: impl Fn(&A::Value) -> Value + Sync,
) -> Vec<Acc>
where
    A::Value: Clone + Send + Sync + std::fmt::Debug,
{
    let to_json = |v: &(Vec<crate::gen::Item>, A::Value)| {
        let bytes = crate::gen::render(&v.0);
        // byte-level shrink with the aux value fixed
        let fails = |c: &[u8]| {
            let mut scratch = Acc::new();
            match crate::rt::guarded(|| Ok(body(c, &v.1, &mut scratch))) {
                Ok(vd) => vd.result.is_err(),
                Err(_) => true,
            }
        };
        let min = if fails(&bytes) {
            shrink_bytes(&bytes, fails)
        } else {
            bytes
        };
        serde_json::json!({"hex": crate::rt::hex(&min), "text": crate::rt::esc(&min), "aux": aux_json(&v.1)})
    };
    let sample_json = |v: &(Vec<crate::gen::Item>, A::Value)| {
        let bytes = crate::gen::render(&v.0);
        serde_json::json!({"text": crate::rt::esc(&bytes), "aux": aux_json(&v.1)})
    };
    let n = workers();
    par(n, |w| {
        let mut acc = Acc::new();
        let share = total / n as u32 + if (w as u32) < total % n as u32 { 1 } else { 0 };
        if share == 0 {
            return acc;
        }
        let mut r = runner(derive_seed(seed, sub, w), share);
        let strat = (crate::gen::stream(cfg), aux());
        let failed = Cell::new(false);
        let mut scratch = Acc::new();
        let res = {
            let accc = RefCell::new(&mut acc);
            let scratchc = RefCell::new(&mut scratch);
            r.run(&strat, |v| {
                let bytes = crate::gen::render(&v.0);
                let verdict = if failed.get() {
                    let mut s = scratchc.borrow_mut();
                    crate::rt::guarded(|| Ok(body(&bytes, &v.1, &mut s)))
                } else {
                    let mut a = accc.borrow_mut();
                    a.eval();
                    crate::gen::count_classes(&v.0, &mut a);
                    let vd = crate::rt::guarded(|| Ok(body(&bytes, &v.1, &mut a)));
                    if let Ok(vd) = &vd {
                        if let Some(d) = vd.nontrivial {
                            a.nontrivial(d);
                            a.sample(|| sample_json(&v));
                        }
                    }
                    vd
                };
                match verdict {
                    Ok(Verdict { result: Ok(()), .. }) => Ok(()),
                    Ok(Verdict { result: Err(m), .. }) | Err(m) => {
                        failed.set(true);
                        Err(TestCaseError::fail(m))
                    }
                }
            })
        };
        match res {
            Ok(()) => {}
            Err(TestError::Fail(reason, value)) => {
                let case = to_json(&value);
                // message of the minimal case
                let min = case_bytes(&case);
                let mut s = Acc::new();
                let msg = match crate::rt::guarded(|| Ok(body(&min, &value.1, &mut s))) {
                    Ok(vd) => vd.result.err().unwrap_or_else(|| reason.message().to_owned()),
                    Err(m) => m,
                };
                acc.fail(sub, case, msg);
            }
            Err(TestError::Abort(reason)) => {
                acc.class("proptest-abort");
                eprintln!("warning: proptest aborted in {sub}: {}", reason.message());
            }
        }
        acc
    })
}
