//! A small strict XML 1.0 parser (well-formedness only, no DTD), written for
//! the SVG check: elements, attributes, character and predefined entity
//! references, comments, CDATA, the `Char` production, end-of-line
//! normalisation. Anything it does not understand is an error.

#[derive(Debug, Clone, PartialEq)]
pub enum Node {
    Element(Element),
    Text(String),
}

#[derive(Debug, Clone, PartialEq, Default)]
pub struct Element {
    pub name: String,
    pub attrs: Vec<(String, String)>,
    pub children: Vec<Node>,
}

impl Element {
    pub fn attr(&self, name: &str) -> Option<&str> {
        self.attrs.iter().find(|(k, _)| k == name).map(|(_, v)| v.as_str())
    }
    /// concatenated text of this element and its descendants
    pub fn text(&self) -> String {
        let mut s = String::new();
        self.collect_text(&mut s);
        s
    }
    fn collect_text(&self, out: &mut String) {
        for c in &self.children {
            match c {
                Node::Text(t) => out.push_str(t),
                Node::Element(e) => e.collect_text(out),
            }
        }
    }
    pub fn elements(&self) -> impl Iterator<Item = &Element> {
        self.children.iter().filter_map(|c| match c {
            Node::Element(e) => Some(e),
            _ => None,
        })
    }
    /// text directly inside this element (not in child elements)
    pub fn own_text(&self) -> String {
        self.children
            .iter()
            .filter_map(|c| match c {
                Node::Text(t) => Some(t.as_str()),
                _ => None,
            })
            .collect()
    }
}

pub fn is_xml_char(c: char) -> bool {
    matches!(c as u32, 0x9 | 0xA | 0xD | 0x20..=0xD7FF | 0xE000..=0xFFFD | 0x10000..=0x10FFFF)
}

fn is_name_start(c: char) -> bool {
    c == ':' || c == '_' || c.is_ascii_alphabetic() || matches!(c as u32, 0xC0..=0xD6 | 0xD8..=0xF6 | 0xF8..=0x2FF | 0x370..=0x37D | 0x37F..=0x1FFF | 0x200C..=0x200D | 0x2070..=0x218F | 0x2C00..=0x2FEF | 0x3001..=0xD7FF | 0xF900..=0xFDCF | 0xFDF0..=0xFFFD | 0x10000..=0xEFFFF)
}

fn is_name_char(c: char) -> bool {
    is_name_start(c) || c == '-' || c == '.' || c.is_ascii_digit() || matches!(c as u32, 0xB7 | 0x0300..=0x036F | 0x203F..=0x2040)
}

struct P<'a> {
    s: &'a [char],
    i: usize,
}

type R<T> = Result<T, String>;

impl<'a> P<'a> {
    fn peek(&self) -> Option<char> {
        self.s.get(self.i).copied()
    }
    fn starts(&self, lit: &str) -> bool {
        let l: Vec<char> = lit.chars().collect();
        self.s.len() >= self.i + l.len() && self.s[self.i..self.i + l.len()] == l[..]
    }
    fn eat(&mut self, lit: &str) -> bool {
        if self.starts(lit) {
            self.i += lit.chars().count();
            true
        } else {
            false
        }
    }
    fn err<T>(&self, msg: &str) -> R<T> {
        let from = self.i.saturating_sub(20);
        let ctx: String = self.s[from..(self.i + 20).min(self.s.len())].iter().collect();
        Err(format!("XML not well-formed at char {}: {msg} (near {:?})", self.i, ctx))
    }
    fn skip_ws(&mut self) -> bool {
        let st = self.i;
        while matches!(self.peek(), Some(' ' | '\t' | '\n' | '\r')) {
            self.i += 1;
        }
        self.i > st
    }
    fn name(&mut self) -> R<String> {
        let st = self.i;
        match self.peek() {
            Some(c) if is_name_start(c) => self.i += 1,
            _ => return self.err("name expected"),
        }
        while matches!(self.peek(), Some(c) if is_name_char(c)) {
            self.i += 1;
        }
        Ok(self.s[st..self.i].iter().collect())
    }
    fn reference(&mut self) -> R<char> {
        // after '&'
        if self.eat("#x") {
            let st = self.i;
            while matches!(self.peek(), Some(c) if c.is_ascii_hexdigit()) {
                self.i += 1;
            }
            if st == self.i || !self.eat(";") {
                return self.err("malformed hexadecimal character reference");
            }
            let t: String = self.s[st..self.i - 1].iter().collect();
            let v = u32::from_str_radix(&t, 16).ok().and_then(char::from_u32);
            return match v {
                Some(c) if is_xml_char(c) => Ok(c),
                _ => self.err("character reference to a non-Char"),
            };
        }
        if self.eat("#") {
            let st = self.i;
            while matches!(self.peek(), Some(c) if c.is_ascii_digit()) {
                self.i += 1;
            }
            if st == self.i || !self.eat(";") {
                return self.err("malformed decimal character reference");
            }
            let t: String = self.s[st..self.i - 1].iter().collect();
            let v = t.parse::<u32>().ok().and_then(char::from_u32);
            return match v {
                Some(c) if is_xml_char(c) => Ok(c),
                _ => self.err("character reference to a non-Char"),
            };
        }
        let n = self.name()?;
        if !self.eat(";") {
            return self.err("entity reference without ';'");
        }
        match n.as_str() {
            "amp" => Ok('&'),
            "lt" => Ok('<'),
            "gt" => Ok('>'),
            "quot" => Ok('"'),
            "apos" => Ok('\''),
            _ => self.err("reference to an undeclared entity"),
        }
    }
    fn attr_value(&mut self) -> R<String> {
        let q = match self.peek() {
            Some(c @ ('"' | '\'')) => c,
            _ => return self.err("quoted attribute value expected"),
        };
        self.i += 1;
        let mut v = String::new();
        loop {
            match self.peek() {
                None => return self.err("unterminated attribute value"),
                Some(c) if c == q => {
                    self.i += 1;
                    return Ok(v);
                }
                Some('<') => return self.err("'<' in attribute value"),
                Some('&') => {
                    self.i += 1;
                    v.push(self.reference()?);
                }
                Some(c) => {
                    if !is_xml_char(c) {
                        return self.err("non-Char in attribute value");
                    }
                    // attribute value normalisation of white space
                    v.push(if matches!(c, '\t' | '\n' | '\r') { ' ' } else { c });
                    self.i += 1;
                }
            }
        }
    }
    fn comment(&mut self) -> R<()> {
        // after "<!--"
        loop {
            if self.starts("--") {
                if self.eat("-->") {
                    return Ok(());
                }
                return self.err("'--' inside a comment");
            }
            match self.peek() {
                None => return self.err("unterminated comment"),
                Some(c) if !is_xml_char(c) => return self.err("non-Char in comment"),
                _ => self.i += 1,
            }
        }
    }
    fn element(&mut self) -> R<Element> {
        // after '<'
        let name = self.name()?;
        let mut el = Element { name, ..Default::default() };
        loop {
            let ws = self.skip_ws();
            if self.eat("/>") {
                return Ok(el);
            }
            if self.eat(">") {
                break;
            }
            if !ws {
                return self.err("white space required between attributes");
            }
            let an = self.name()?;
            self.skip_ws();
            if !self.eat("=") {
                return self.err("'=' expected after attribute name");
            }
            self.skip_ws();
            let av = self.attr_value()?;
            if el.attrs.iter().any(|(k, _)| *k == an) {
                return self.err("duplicate attribute");
            }
            el.attrs.push((an, av));
        }
        // content
        let mut text = String::new();
        loop {
            if self.starts("</") {
                self.i += 2;
                let n = self.name()?;
                if n != el.name {
                    return self.err("mismatched end tag");
                }
                self.skip_ws();
                if !self.eat(">") {
                    return self.err("'>' expected in end tag");
                }
                if !text.is_empty() {
                    el.children.push(Node::Text(std::mem::take(&mut text)));
                }
                return Ok(el);
            }
            if self.eat("<!--") {
                self.comment()?;
                continue;
            }
            if self.eat("<![CDATA[") {
                loop {
                    if self.eat("]]>") {
                        break;
                    }
                    match self.peek() {
                        None => return self.err("unterminated CDATA section"),
                        Some(c) if !is_xml_char(c) => return self.err("non-Char in CDATA"),
                        Some(c) => {
                            text.push(c);
                            self.i += 1;
                        }
                    }
                }
                continue;
            }
            if self.starts("<?") || self.starts("<!") {
                return self.err("processing instructions / declarations are not expected in content");
            }
            match self.peek() {
                None => return self.err("unexpected end of document inside an element"),
                Some('<') => {
                    self.i += 1;
                    if !text.is_empty() {
                        el.children.push(Node::Text(std::mem::take(&mut text)));
                    }
                    let child = self.element()?;
                    el.children.push(Node::Element(child));
                }
                Some('&') => {
                    self.i += 1;
                    text.push(self.reference()?);
                }
                Some(c) => {
                    if self.starts("]]>") {
                        return self.err("']]>' in character data");
                    }
                    if !is_xml_char(c) {
                        return self.err(&format!("character U+{:04X} is not an XML Char", c as u32));
                    }
                    text.push(c);
                    self.i += 1;
                }
            }
        }
    }
}

/// Parse a document (optional XML declaration, one root element, trailing
/// white space / comments).
pub fn parse(doc: &str) -> Result<Element, String> {
    // end-of-line normalisation (XML 1.0 §2.11)
    let mut chars: Vec<char> = Vec::with_capacity(doc.len());
    let mut it = doc.chars().peekable();
    while let Some(c) = it.next() {
        if c == '\r' {
            if it.peek() == Some(&'\n') {
                it.next();
            }
            chars.push('\n');
        } else {
            chars.push(c);
        }
    }
    let mut p = P { s: &chars, i: 0 };
    if p.eat("<?xml") {
        while !p.starts("?>") {
            if p.peek().is_none() {
                return p.err("unterminated XML declaration");
            }
            p.i += 1;
        }
        p.i += 2;
    }
    loop {
        p.skip_ws();
        if p.eat("<!--") {
            p.comment()?;
        } else {
            break;
        }
    }
    if !p.eat("<") {
        return p.err("root element expected");
    }
    let root = p.element()?;
    loop {
        p.skip_ws();
        if p.eat("<!--") {
            p.comment()?;
        } else {
            break;
        }
    }
    if p.peek().is_some() {
        return p.err("content after the root element");
    }
    Ok(root)
}

/// Very small CSS reader for the generated style sheet: returns
/// (selector, [(property, value)]) in document order. Only flat rules.
pub fn parse_css(css: &str) -> Result<Vec<(String, Vec<(String, String)>)>, String> {
    let mut rules = vec![];
    let mut rest = css;
    loop {
        let Some(open) = rest.find('{') else {
            if rest.trim().is_empty() {
                return Ok(rules);
            }
            return Err(format!("CSS: trailing garbage {:?}", rest.trim()));
        };
        let selector = rest[..open].trim().to_owned();
        let Some(close) = rest[open..].find('}') else {
            return Err("CSS: unterminated rule".into());
        };
        let body = &rest[open + 1..open + close];
        if body.contains('{') {
            return Err("CSS: nested rule".into());
        }
        let mut decls = vec![];
        for d in body.split(';') {
            let d = d.trim();
            if d.is_empty() {
                continue;
            }
            let Some((k, v)) = d.split_once(':') else {
                return Err(format!("CSS: declaration without ':' {:?}", d));
            };
            decls.push((k.trim().to_owned(), v.trim().to_owned()));
        }
        if selector.is_empty() {
            return Err("CSS: rule without selector".into());
        }
        rules.push((selector, decls));
        rest = &rest[open + close + 1..];
    }
}

#[cfg(test)]
mod tests {
    use super::*;
    #[test]
    fn basics() {
        let e = parse("<a x='1'><b>t&amp;&#65;</b>\r\n<c/></a>").unwrap();
        assert_eq!(e.name, "a");
        assert_eq!(e.text(), "t&A\n");
        assert!(parse("<a><b></a></b>").is_err());
        assert!(parse("<a>&foo;</a>").is_err());
        assert!(parse("<a>\u{c}</a>").is_err());
        assert!(parse("<a>]]></a>").is_err());
        assert!(parse("<a x='1' x='2'/>").is_err());
        assert!(parse("<a>&</a>").is_err());
        assert!(parse("<a><</a>").is_err());
    }
}
