//! Reference palettes, independent of the crate's tables.

pub type Rgb = (u8, u8, u8);

/// xterm 256-colour palette entries 16..=255 by formula: 6x6x6 cube with
/// levels 0,95,135,175,215,255, then 24 greys 8+10k.
pub fn xterm240(i: usize) -> Rgb {
    assert!((16..256).contains(&i));
    if i < 232 {
        let j = i - 16;
        let level = |n: usize| if n == 0 { 0u8 } else { (55 + 40 * n) as u8 };
        (level(j / 36), level((j / 6) % 6), level(j % 6))
    } else {
        let v = (8 + 10 * (i - 232)) as u8;
        (v, v, v)
    }
}

/// VGA text-mode palette (Wikipedia, "ANSI escape code", 3-bit and 4-bit table)
pub const VGA: [Rgb; 16] = [
    (0, 0, 0),
    (170, 0, 0),
    (0, 170, 0),
    (170, 85, 0),
    (0, 0, 170),
    (170, 0, 170),
    (0, 170, 170),
    (170, 170, 170),
    (85, 85, 85),
    (255, 85, 85),
    (85, 255, 85),
    (255, 255, 85),
    (85, 85, 255),
    (255, 85, 255),
    (85, 255, 255),
    (255, 255, 255),
];

/// Windows 10 console palette (same table, "Windows 10 Console" column)
pub const WIN10: [Rgb; 16] = [
    (12, 12, 12),
    (197, 15, 31),
    (19, 161, 14),
    (193, 156, 0),
    (0, 55, 218),
    (136, 23, 152),
    (58, 150, 221),
    (204, 204, 204),
    (118, 118, 118),
    (231, 72, 86),
    (22, 198, 12),
    (249, 241, 165),
    (59, 120, 255),
    (180, 0, 158),
    (97, 214, 214),
    (242, 242, 242),
];

/// The "red-mean" weighted colour distance (T. Riemersma, compuphase.com/cmetric.htm), squared and
/// scaled by 512 so that it is exact in integers: with `rm = (r1 + r2) / 2`,
/// `dC^2 = (2 + rm/256) dR^2 + 4 dG^2 + (2 + (255 - rm)/256) dB^2`, hence
/// `512 dC^2 = (1024 + r1 + r2) dR^2 + 2048 dG^2 + (1534 - r1 - r2) dB^2`.
/// Written from the published formula, not from the crate (which, until the F25 repair, weighted
/// green with 1024 - half of what the formula it cites says).
pub fn distance(a: Rgb, b: Rgb) -> i64 {
    let (r1, g1, b1) = (a.0 as i64, a.1 as i64, a.2 as i64);
    let (r2, g2, b2) = (b.0 as i64, b.1 as i64, b.2 as i64);
    let rs = r1 + r2;
    (1024 + rs) * (r1 - r2) * (r1 - r2) + 2048 * (g1 - g2) * (g1 - g2) + (1534 - rs) * (b1 - b2) * (b1 - b2)
}

/// (lowest index of minimal distance, minimal distance, is there a tie)
pub fn nearest(c: Rgb, candidates: &[Rgb]) -> (usize, i64, bool) {
    let mut best = 0;
    let mut bd = distance(c, candidates[0]);
    let mut tie = false;
    for (i, k) in candidates.iter().enumerate().skip(1) {
        let d = distance(c, *k);
        if d < bd {
            bd = d;
            best = i;
            tie = false;
        } else if d == bd {
            tie = true;
        }
    }
    (best, bd, tie)
}

/// RGB values that some terminal palette names exactly: the 240 fixed xterm colours (6x6x6 cube
/// levels 0/95/135/175/215/255 and the 24 greys) and the VGA / Windows-10 16-colour palettes.
/// Code that special-cases "colours an indexed palette can express" keys on these.
pub fn special_rgb() -> Vec<Rgb> {
    let mut v = xterm_candidates();
    v.extend_from_slice(&VGA);
    v.extend_from_slice(&WIN10);
    v.sort();
    v.dedup();
    v
}

pub fn xterm_candidates() -> Vec<Rgb> {
    (16..256).map(xterm240).collect()
}
