//! Runtime shared by all check binaries: argument handling, per-subcheck
//! accumulators, evidence, replay files, known findings, exit codes.
//!
//! Exit codes: 0 = held on everything explored, 1 = violation (a line
//! `VIOLATION property=<id> replay=<path>` is printed), 2 = inconclusive
//! (infrastructure trouble, never a verdict about the code under test).

use serde::{Deserialize, Serialize};
use serde_json::{json, Value};
use std::collections::{BTreeMap, HashSet};
use std::path::{Path, PathBuf};
use std::time::Instant;

#[derive(Clone, Copy, PartialEq, Eq, Debug)]
pub enum Tier {
    Quick,
    Thorough,
}

impl Tier {
    pub fn name(self) -> &'static str {
        match self {
            Tier::Quick => "quick",
            Tier::Thorough => "thorough",
        }
    }
    /// pick a size by tier
    pub fn pick<T>(self, quick: T, thorough: T) -> T {
        match self {
            Tier::Quick => quick,
            Tier::Thorough => thorough,
        }
    }
}

#[derive(Clone, Debug)]
pub struct Args {
    pub tier: Tier,
    pub seed: u64,
    pub replay: Option<PathBuf>,
    /// extra free-form arguments (used by child-process modes)
    pub rest: Vec<String>,
}

pub fn verif_dir() -> PathBuf {
    std::env::var_os("VERIF_DIR")
        .map(PathBuf::from)
        .unwrap_or_else(|| PathBuf::from("/verif"))
}

pub fn tmp_dir() -> PathBuf {
    let d = verif_dir().join("target").join("tmp");
    let _ = std::fs::create_dir_all(&d);
    d
}

pub fn parse_args() -> Args {
    let mut tier = match std::env::var("VERIF_TIER").ok().as_deref() {
        Some("thorough") => Tier::Thorough,
        _ => Tier::Quick,
    };
    let seed = std::env::var("VERIF_SEED")
        .ok()
        .and_then(|s| s.trim().parse::<i128>().ok())
        .map(|v| v as u64)
        .unwrap_or(0);
    let mut replay = None;
    let mut rest = Vec::new();
    let mut it = std::env::args().skip(1);
    while let Some(a) = it.next() {
        match a.as_str() {
            "quick" => tier = Tier::Quick,
            "thorough" => tier = Tier::Thorough,
            "--replay" => replay = it.next().map(PathBuf::from),
            _ => rest.push(a),
        }
    }
    Args {
        tier,
        seed,
        replay,
        rest,
    }
}

/// splitmix64 — used only to *derive* seeds and digests, never as a source of
/// test-case randomness (that is proptest's job).
pub fn mix(mut x: u64) -> u64 {
    x = x.wrapping_add(0x9E3779B97F4A7C15);
    let mut z = x;
    z = (z ^ (z >> 30)).wrapping_mul(0xBF58476D1CE4E5B9);
    z = (z ^ (z >> 27)).wrapping_mul(0x94D049BB133111EB);
    z ^ (z >> 31)
}

pub fn derive_seed(seed: u64, sub: &str, worker: usize) -> u64 {
    let mut h = mix(seed ^ 0xA5A5_5A5A_1234_5678);
    for b in sub.bytes() {
        h = mix(h ^ b as u64);
    }
    mix(h ^ (worker as u64).wrapping_mul(0x1000_0000_01B3))
}

pub fn digest(bytes: &[u8]) -> u64 {
    // FNV-1a 64 followed by a mix
    let mut h: u64 = 0xcbf29ce484222325;
    for b in bytes {
        h ^= *b as u64;
        h = h.wrapping_mul(0x100000001b3);
    }
    mix(h)
}

pub fn digest_str(s: &str) -> u64 {
    digest(s.as_bytes())
}

pub fn hex(bytes: &[u8]) -> String {
    let mut s = String::with_capacity(bytes.len() * 2);
    for b in bytes {
        s.push_str(&format!("{:02x}", b));
    }
    s
}

pub fn unhex(s: &str) -> Vec<u8> {
    let s: Vec<u8> = s.bytes().filter(|b| b.is_ascii_hexdigit()).collect();
    s.chunks(2)
        .filter(|c| c.len() == 2)
        .map(|c| u8::from_str_radix(std::str::from_utf8(c).unwrap(), 16).unwrap())
        .collect()
}

/// printable rendering of a byte string for samples/messages
pub fn esc(bytes: &[u8]) -> String {
    let mut s = String::new();
    for &b in bytes {
        match b {
            b'\\' => s.push_str("\\\\"),
            0x20..=0x7e => s.push(b as char),
            _ => s.push_str(&format!("\\x{:02x}", b)),
        }
    }
    s
}

#[derive(Clone, Debug, Serialize, Deserialize)]
pub struct Failure {
    pub sub: String,
    pub case: Value,
    pub message: String,
}

/// Per-worker, per-subcheck accumulator.
#[derive(Default)]
pub struct Acc {
    pub evals: u64,
    /// non-trivial cases known to be pairwise distinct by construction
    /// (exhaustive enumerations)
    pub nontrivial_counted: u64,
    /// digests of non-trivial cases from random generation
    pub nontrivial_hashed: HashSet<u64>,
    pub classes: BTreeMap<String, u64>,
    pub samples: Vec<Value>,
    pub failure: Option<Failure>,
    pub sample_cap: usize,
    sample_tick: u64,
}

impl Acc {
    pub fn new() -> Self {
        Acc {
            sample_cap: 3,
            ..Default::default()
        }
    }
    #[inline]
    pub fn eval(&mut self) {
        self.evals += 1;
    }
    #[inline]
    pub fn nontrivial_distinct(&mut self) {
        self.nontrivial_counted += 1;
    }
    #[inline]
    pub fn nontrivial(&mut self, digest: u64) {
        self.nontrivial_hashed.insert(digest);
    }
    #[inline]
    pub fn class(&mut self, name: &str) {
        self.class_n(name, 1);
    }
    #[inline]
    pub fn class_n(&mut self, name: &str, n: u64) {
        if let Some(c) = self.classes.get_mut(name) {
            *c += n;
        } else {
            self.classes.insert(name.to_owned(), n);
        }
    }
    /// keep a few samples, spread over the run (1st, 10th, 100th ... offer)
    #[inline]
    pub fn sample(&mut self, f: impl FnOnce() -> Value) {
        self.sample_tick += 1;
        let t = self.sample_tick;
        if self.samples.len() < self.sample_cap && (t == 1 || t == 37 || t == 1009 || t == 30011)
        {
            self.samples.push(f());
        }
    }
    pub fn failed(&self) -> bool {
        self.failure.is_some()
    }
    pub fn fail(&mut self, sub: &str, case: Value, message: String) {
        if self.failure.is_none() {
            // the case file holds the complete input; keep the one-line message readable
            let message = if message.len() > 3000 {
                let head: String = message.chars().take(1500).collect();
                let tail: String = message.chars().rev().take(700).collect::<Vec<_>>().into_iter().rev().collect();
                format!("{head} ...[{} characters omitted]... {tail}", message.chars().count() - 2200)
            } else {
                message
            };
            self.failure = Some(Failure {
                sub: sub.to_owned(),
                case,
                message,
            });
        }
    }
    pub fn merge(&mut self, other: Acc) {
        self.evals += other.evals;
        self.nontrivial_counted += other.nontrivial_counted;
        self.nontrivial_hashed.extend(other.nontrivial_hashed);
        for (k, v) in other.classes {
            *self.classes.entry(k).or_insert(0) += v;
        }
        for s in other.samples {
            if self.samples.len() < 6 {
                self.samples.push(s);
            }
        }
        if self.failure.is_none() {
            self.failure = other.failure;
        }
    }
    pub fn nontrivial_total(&self) -> u64 {
        self.nontrivial_counted + self.nontrivial_hashed.len() as u64
    }
}

/// Run `f(worker_index)` on `n` threads and return results in index order.
pub fn par<T: Send>(n: usize, f: impl Fn(usize) -> T + Sync) -> Vec<T> {
    let f = &f;
    std::thread::scope(|s| {
        let hs: Vec<_> = (0..n)
            .map(|w| {
                std::thread::Builder::new()
                    .stack_size(64 << 20)
                    .spawn_scoped(s, move || f(w))
                    .expect("spawn")
            })
            .collect();
        hs.into_iter()
            .map(|h| match h.join() {
                Ok(v) => v,
                Err(p) => std::panic::resume_unwind(p),
            })
            .collect()
    })
}

pub fn workers() -> usize {
    std::env::var("VERIF_WORKERS")
        .ok()
        .and_then(|s| s.parse().ok())
        .unwrap_or_else(|| {
            std::thread::available_parallelism()
                .map(|n| n.get())
                .unwrap_or(4)
                .min(16)
        })
}

#[derive(Clone, Debug, Serialize, Deserialize)]
pub struct KnownFinding {
    pub id: String,
    pub property: String,
    pub status: String, // "open" | "fixed"
    #[serde(default)]
    pub subcheck: String,
    #[serde(default)]
    pub case: Value,
    pub what: String,
    #[serde(default)]
    pub fix_commit: Option<String>,
}

pub fn load_known_findings(property: &str) -> Vec<KnownFinding> {
    let p = verif_dir().join("KNOWN_FINDINGS.json");
    let Ok(text) = std::fs::read_to_string(&p) else {
        return vec![];
    };
    let all: Vec<KnownFinding> = match serde_json::from_str(&text) {
        Ok(v) => v,
        Err(e) => {
            eprintln!("warning: cannot parse {}: {e}", p.display());
            return vec![];
        }
    };
    all.into_iter().filter(|k| k.property == property).collect()
}

struct SubReport {
    name: String,
    exhaustive: bool,
    bound: String,
    acc: Acc,
}

pub struct Report {
    pub id: &'static str,
    pub tier: Tier,
    pub seed: u64,
    start: Instant,
    subs: Vec<SubReport>,
    excluded: BTreeMap<String, u64>,
    assumptions: Vec<String>,
    notes: Vec<String>,
    extra: BTreeMap<String, Value>,
    inconclusive: Option<String>,
    level: &'static str,
}

pub type ReplayFn = dyn Fn(&str, &Value) -> Result<(), String> + Sync;

impl Report {
    pub fn new(id: &'static str, args: &Args) -> Self {
        Report {
            id,
            tier: args.tier,
            seed: args.seed,
            start: Instant::now(),
            subs: vec![],
            excluded: BTreeMap::new(),
            assumptions: vec![],
            notes: vec![],
            extra: BTreeMap::new(),
            inconclusive: None,
            level: "exploration",
        }
    }

    pub fn level(&mut self, level: &'static str) {
        self.level = level;
    }

    /// merge worker accumulators into one subcheck record
    pub fn add(&mut self, name: &str, exhaustive: bool, bound: &str, accs: Vec<Acc>) {
        let mut m = Acc::new();
        for a in accs {
            m.merge(a);
        }
        eprintln!(
            "[{}] {:<28} evals={:<10} nontrivial={:<9} {}{}",
            self.id,
            name,
            m.evals,
            m.nontrivial_total(),
            if exhaustive { "exhaustive " } else { "" },
            if m.failure.is_some() { "FAILED" } else { "ok" }
        );
        if let Some(s) = self.subs.iter_mut().find(|s| s.name == name) {
            s.acc.merge(m);
            s.exhaustive &= exhaustive;
        } else {
            self.subs.push(SubReport {
                name: name.to_owned(),
                exhaustive,
                bound: bound.to_owned(),
                acc: m,
            });
        }
    }
    pub fn exclude(&mut self, what: &str, n: u64) {
        *self.excluded.entry(what.to_owned()).or_insert(0) += n;
    }
    pub fn assume(&mut self, s: &str) {
        self.assumptions.push(s.to_owned());
    }
    pub fn note(&mut self, s: &str) {
        self.notes.push(s.to_owned());
    }
    pub fn extra(&mut self, k: &str, v: Value) {
        self.extra.insert(k.to_owned(), v);
    }
    pub fn inconclusive(&mut self, reason: &str) {
        if self.inconclusive.is_none() {
            self.inconclusive = Some(reason.to_owned());
        }
    }
    pub fn has_failure(&self) -> bool {
        self.subs.iter().any(|s| s.acc.failure.is_some())
    }

    /// Replays known findings, writes evidence and replay files, prints the
    /// verdict lines and exits.
    pub fn finish(mut self, rule: &str, replay: &ReplayFn) -> ! {
        let vdir = verif_dir();
        let known = load_known_findings(self.id);
        let mut kf_lines = Vec::new();
        let mut kf_reproduced = 0u64;
        let mut violations: Vec<Failure> = Vec::new();

        for k in &known {
            let r = guarded(|| replay(&k.subcheck, &k.case));
            match (k.status.as_str(), r) {
                ("open", Err(msg)) => {
                    kf_reproduced += 1;
                    kf_lines.push(format!(
                        "KNOWN-FINDING: property={} {} {} [{}]",
                        self.id,
                        k.id,
                        k.what,
                        one_line(&msg)
                    ));
                }
                ("open", Ok(())) => {
                    self.notes.push(format!(
                        "known finding {} no longer reproduces on this tree",
                        k.id
                    ));
                }
                (_, Err(msg)) => {
                    // a fixed finding came back
                    violations.push(Failure {
                        sub: k.subcheck.clone(),
                        case: k.case.clone(),
                        message: format!("regression of fixed finding {}: {}", k.id, msg),
                    });
                }
                (_, Ok(())) => {}
            }
        }

        for s in &self.subs {
            if let Some(f) = &s.acc.failure {
                let is_known_open = known
                    .iter()
                    .any(|k| k.status == "open" && k.subcheck == f.sub && k.case == f.case);
                if !is_known_open {
                    violations.push(f.clone());
                }
            }
        }

        // evidence
        let evaluations: u64 = self.subs.iter().map(|s| s.acc.evals).sum::<u64>()
            + known.len() as u64;
        let distinct: u64 = self.subs.iter().map(|s| s.acc.nontrivial_total()).sum();
        let mut samples: Vec<Value> = Vec::new();
        for s in &self.subs {
            for v in s.acc.samples.iter().take(2) {
                samples.push(json!({"subcheck": s.name, "case": v}));
            }
        }
        if samples.is_empty() {
            for s in &self.subs {
                for v in s.acc.samples.iter() {
                    samples.push(json!({"subcheck": s.name, "case": v}));
                }
            }
        }
        let subchecks: Vec<Value> = self
            .subs
            .iter()
            .map(|s| {
                json!({
                    "name": s.name,
                    "evaluations": s.acc.evals,
                    "nontrivial": s.acc.nontrivial_total(),
                    "exhaustive": s.exhaustive,
                    "bound": s.bound,
                    "classes": s.acc.classes,
                    "failed": s.acc.failure.is_some(),
                })
            })
            .collect();
        let all_exhaustive = !self.subs.is_empty() && self.subs.iter().all(|s| s.exhaustive);
        let mut coverage = json!({
            "evaluations": evaluations,
            "distinct_nontrivial": distinct,
            "rule": rule,
            "samples": samples,
            "exhaustive": all_exhaustive,
            "subchecks": subchecks,
            "excluded_by_construction": self.excluded,
            "known_findings_replayed": known.len(),
            "known_findings_reproduced": kf_reproduced,
            "notes": self.notes,
        });
        for (k, v) in &self.extra {
            coverage[k] = v.clone();
        }
        let evidence = json!({
            "property_id": self.id,
            "tier": self.tier.name(),
            "seed": self.seed as i64,
            "level": self.level,
            "coverage": coverage,
            "assumptions": self.assumptions,
            "wall_s": self.start.elapsed().as_secs_f64(),
            "violations": violations.len(),
            "inconclusive": self.inconclusive,
        });
        let edir = vdir.join("evidence");
        let _ = std::fs::create_dir_all(&edir);
        let epath = edir.join(format!("{}.json", self.id));
        let tmp = edir.join(format!("{}.json.tmp", self.id));
        if std::fs::write(&tmp, serde_json::to_string_pretty(&evidence).unwrap()).is_ok() {
            let _ = std::fs::rename(&tmp, &epath);
        }

        for l in &kf_lines {
            println!("{l}");
        }
        if !violations.is_empty() {
            let rdir = vdir.join("replays").join(self.id);
            let _ = std::fs::create_dir_all(&rdir);
            for f in &violations {
                let body = json!({
                    "property": self.id,
                    "subcheck": f.sub,
                    "case": f.case,
                    "message": f.message,
                    "seed": self.seed as i64,
                    "tier": self.tier.name(),
                });
                let text = serde_json::to_string_pretty(&body).unwrap();
                let name = format!(
                    "{}-{:016x}.json",
                    sanitize(&f.sub),
                    digest_str(&serde_json::to_string(&f.case).unwrap())
                );
                let path = rdir.join(name);
                let _ = std::fs::write(&path, text);
                eprintln!("[{}] {}: {}", self.id, f.sub, f.message);
                println!("VIOLATION property={} replay={}", self.id, path.display());
            }
            std::process::exit(1);
        }
        if let Some(r) = &self.inconclusive {
            println!("INCONCLUSIVE property={} reason={}", self.id, one_line(r));
            std::process::exit(2);
        }
        println!(
            "OK property={} tier={} evaluations={} distinct_nontrivial={} wall_s={:.1}",
            self.id,
            self.tier.name(),
            evaluations,
            distinct,
            self.start.elapsed().as_secs_f64()
        );
        std::process::exit(0);
    }
}

fn sanitize(s: &str) -> String {
    s.chars()
        .map(|c| if c.is_ascii_alphanumeric() || c == '-' { c } else { '_' })
        .collect()
}

pub fn one_line(s: &str) -> String {
    let mut t: String = s.chars().map(|c| if c == '\n' { ' ' } else { c }).collect();
    if t.len() > 300 {
        let mut n = 300;
        while !t.is_char_boundary(n) {
            n -= 1;
        }
        t.truncate(n);
        t.push('…');
    }
    t
}

/// Run `f`, turning a panic into `Err`.
/// Environments a conversion must not depend on (name, value or None = unset): one that says "no
/// colour" in every convention, one that says "force colour" in every convention.
pub const HOSTILE_ENVS: [(&str, &[(&str, Option<&str>)]); 2] = [
    ("no-colour-everywhere", &[("NO_COLOR", Some("1")), ("CLICOLOR", Some("0")), ("CLICOLOR_FORCE", None), ("TERM", Some("dumb")), ("COLORTERM", None), ("CI", None), ("FORCE_COLOR", Some("0"))]),
    ("force-colour-everywhere", &[("NO_COLOR", None), ("CLICOLOR", Some("1")), ("CLICOLOR_FORCE", Some("1")), ("TERM", Some("xterm-256color")), ("COLORTERM", Some("truecolor")), ("CI", Some("1")), ("FORCE_COLOR", Some("3"))]),
];

/// Run `f` with the given environment variables set / unset, then restore them. The environment is
/// process-wide: call this only while no worker thread is running (between parallel sub-checks).
pub fn with_env<T>(vars: &[(&str, Option<&str>)], f: impl FnOnce() -> T) -> T {
    let saved: Vec<(String, Option<std::ffi::OsString>)> = vars.iter().map(|(k, _)| (k.to_string(), std::env::var_os(k))).collect();
    for (k, v) in vars {
        match v {
            Some(v) => std::env::set_var(k, v),
            None => std::env::remove_var(k),
        }
    }
    let r = f();
    for (k, v) in saved {
        match v {
            Some(v) => std::env::set_var(&k, v),
            None => std::env::remove_var(&k),
        }
    }
    r
}

pub fn guarded<T>(f: impl FnOnce() -> Result<T, String>) -> Result<T, String> {
    match std::panic::catch_unwind(std::panic::AssertUnwindSafe(f)) {
        Ok(r) => r,
        Err(p) => Err(format!("panic: {}", panic_message(&p))),
    }
}

pub fn panic_message(p: &Box<dyn std::any::Any + Send>) -> String {
    if let Some(s) = p.downcast_ref::<&str>() {
        (*s).to_owned()
    } else if let Some(s) = p.downcast_ref::<String>() {
        s.clone()
    } else {
        "<non-string panic payload>".to_owned()
    }
}

/// Silence the default panic printer (checks catch panics and report them).
pub fn quiet_panics() {
    std::panic::set_hook(Box::new(|_| {}));
}

/// Standard entry point of a check binary.
pub fn main(
    id: &'static str,
    rule: &str,
    run: impl FnOnce(&Args, &mut Report),
    replay: &ReplayFn,
) -> ! {
    // A run is a function of the code under test and the seed, not of the caller's terminal
    // settings: the colour conventions of the environment are neutralised before any thread starts
    // (checks that are ABOUT the environment - C08, C09, the ambient-environment sub-checks - set
    // what they need themselves). Some libraries read these lazily, once per process.
    for k in ["NO_COLOR", "CLICOLOR", "CLICOLOR_FORCE", "FORCE_COLOR", "COLORTERM", "CI"] {
        std::env::remove_var(k);
    }
    std::env::set_var("TERM", "xterm-256color");
    let args = parse_args();
    if let Some(path) = &args.replay {
        std::process::exit(replay_file(id, path, replay));
    }
    // Watchdog: a check that runs far longer than it ever should (code under test that has become
    // extremely slow or hangs) is reported as inconclusive - exit 2 - never as a violation.
    let limit = std::env::var("VERIF_WATCHDOG_S").ok().and_then(|v| v.parse::<u64>().ok()).unwrap_or(match args.tier {
        Tier::Quick => 1_800,
        Tier::Thorough => 6 * 3_600,
    });
    if limit > 0 {
        std::thread::spawn(move || {
            std::thread::sleep(std::time::Duration::from_secs(limit));
            println!("INCONCLUSIVE property={id} reason=watchdog: the check did not finish within {limit} s (set VERIF_WATCHDOG_S to change the limit, 0 disables it)");
            std::process::exit(2);
        });
    }
    let mut report = Report::new(id, &args);
    run(&args, &mut report);
    report.finish(rule, replay)
}

pub fn replay_file(id: &str, path: &Path, replay: &ReplayFn) -> i32 {
    let text = match std::fs::read_to_string(path) {
        Ok(t) => t,
        Err(e) => {
            println!("INCONCLUSIVE property={id} reason=cannot read replay file: {e}");
            return 2;
        }
    };
    let v: Value = match serde_json::from_str(&text) {
        Ok(v) => v,
        Err(e) => {
            println!("INCONCLUSIVE property={id} reason=replay file is not JSON: {e}");
            return 2;
        }
    };
    let sub = v
        .get("subcheck")
        .and_then(|s| s.as_str())
        .unwrap_or("")
        .to_owned();
    let case = v.get("case").cloned().unwrap_or(Value::Null);
    match guarded(|| replay(&sub, &case)) {
        Ok(()) => {
            println!("OK property={id} replay={} (case passes)", path.display());
            0
        }
        Err(msg) => {
            eprintln!("[{id}] {sub}: {msg}");
            println!("VIOLATION property={id} replay={}", path.display());
            1
        }
    }
}
