//! C16 — conversions to other styling crates preserve colours and effects.
use proptest::prelude::*;
use serde::{Deserialize, Serialize};
use serde_json::{json, Value};
use vcore::drive::{prop_par, Verdict};
use vcore::rt::{self, digest_str, esc, Acc, Args, Report};
use vcore::sgr::{self, to_style, MColor, MStyle};

const RULE: &str = "Styles: per adapter, every one of the 16 palette + 256 indexed colours and a 9^3 RGB lattice plus every RGB value the xterm-256 / VGA / Win10 palettes name in each colour slot x a covering family of effect sets (none, each single effect, all), all 4096 effect sets x a covering family of colour combinations, and seeded random full styles; syntect: random styles incl. alpha and every font-style subset. Oracles: (value) the converted value == a value built through the target library's public constructors from the harness's own mapping tables; (render) the value rendered by the target library itself, interpreted by the reference SGR interpreter up to a marker character, == the input projected on what that library can express (hue always; brightness for crossterm/owo/yansi; for ansi_term a bright colour either as hue (+ bold for a foreground) or exactly as Fixed(8+k), for termcolor brightness either dropped or kept through its one `intense` flag where no hue is altered - every such reading is accepted; indexed and RGB exact; underline colour for crossterm; the eight classic effects - for crossterm also the four further underline kinds, for termcolor only bold/dim/italic/underline/strikethrough); nothing extra may appear. Non-trivial = a colour in at least one slot and at least one effect (distinct by (adapter, style)).";

#[derive(Clone, Copy, Debug, PartialEq, Eq, Serialize, Deserialize)]
enum Adapter {
    AnsiTerm,
    Crossterm,
    Owo,
    Termcolor,
    Yansi,
}
const ADAPTERS: [Adapter; 5] = [Adapter::AnsiTerm, Adapter::Crossterm, Adapter::Owo, Adapter::Termcolor, Adapter::Yansi];

const CLASSIC: u16 = sgr::BOLD | sgr::DIMMED | sgr::ITALIC | sgr::UNDERLINE | sgr::BLINK | sgr::INVERT | sgr::HIDDEN | sgr::STRIKETHROUGH;

fn has(m: &MStyle, bit: u16) -> bool {
    m.effects & bit != 0
}

// ------------------------------------------------------------ ansi_term
fn at_color(c: MColor) -> (ansi_term::Color, bool) {
    use ansi_term::Color::*;
    const HUES: [ansi_term::Color; 8] = [Black, Red, Green, Yellow, Blue, Purple, Cyan, White];
    match c {
        MColor::Ansi(k) => (HUES[k as usize % 8], k >= 8),
        MColor::Idx(n) => (Fixed(n), false),
        MColor::Rgb(r, g, b) => (RGB(r, g, b), false),
    }
}
/// ansi_term has the eight hues plus `Fixed(n)`: a bright palette colour is either reduced to its
/// hue (plus bold for a foreground, as the adapter has always done) or kept exactly as `Fixed(8 + k)`.
/// `alt` bit 0: the foreground is kept as `Fixed`, bit 1: the background. All readings are accepted.
fn expect_ansi_term(m: &MStyle, alt: u8) -> ansi_term::Style {
    let mut s = ansi_term::Style::new();
    if let Some(c) = m.fg {
        match c {
            MColor::Ansi(k) if k >= 8 && alt & 1 != 0 => s = s.fg(ansi_term::Color::Fixed(k)),
            _ => {
                let (c, bold) = at_color(c);
                s = s.fg(c);
                if bold {
                    s = s.bold();
                }
            }
        }
    }
    if let Some(c) = m.bg {
        match c {
            MColor::Ansi(k) if k >= 8 && alt & 2 != 0 => s = s.on(ansi_term::Color::Fixed(k)),
            _ => s = s.on(at_color(c).0),
        }
    }
    if has(m, sgr::BOLD) {
        s = s.bold();
    }
    if has(m, sgr::DIMMED) {
        s = s.dimmed();
    }
    if has(m, sgr::ITALIC) {
        s = s.italic();
    }
    if has(m, sgr::UNDERLINE) {
        s = s.underline();
    }
    if has(m, sgr::BLINK) {
        s = s.blink();
    }
    if has(m, sgr::INVERT) {
        s = s.reverse();
    }
    if has(m, sgr::HIDDEN) {
        s = s.hidden();
    }
    if has(m, sgr::STRIKETHROUGH) {
        s = s.strikethrough();
    }
    s
}

// ------------------------------------------------------------ crossterm
fn ct_color(c: MColor) -> crossterm::style::Color {
    use crossterm::style::Color::*;
    const NAMES: [crossterm::style::Color; 16] = [Black, DarkRed, DarkGreen, DarkYellow, DarkBlue, DarkMagenta, DarkCyan, Grey, DarkGrey, Red, Green, Yellow, Blue, Magenta, Cyan, White];
    match c {
        MColor::Ansi(k) => NAMES[k as usize & 15],
        MColor::Idx(n) => AnsiValue(n),
        MColor::Rgb(r, g, b) => Rgb { r, g, b },
    }
}
fn expect_crossterm(m: &MStyle) -> crossterm::style::ContentStyle {
    use crossterm::style::Attribute as A;
    let mut attributes = crossterm::style::Attributes::default();
    for (bit, a) in [
        (sgr::BOLD, A::Bold),
        (sgr::DIMMED, A::Dim),
        (sgr::ITALIC, A::Italic),
        (sgr::UNDERLINE, A::Underlined),
        (sgr::DOUBLE_UNDERLINE, A::DoubleUnderlined),
        (sgr::CURLY_UNDERLINE, A::Undercurled),
        (sgr::DOTTED_UNDERLINE, A::Underdotted),
        (sgr::DASHED_UNDERLINE, A::Underdashed),
        (sgr::BLINK, A::SlowBlink),
        (sgr::INVERT, A::Reverse),
        (sgr::HIDDEN, A::Hidden),
        (sgr::STRIKETHROUGH, A::CrossedOut),
    ] {
        if has(m, bit) {
            attributes.set(a);
        }
    }
    crossterm::style::ContentStyle { foreground_color: m.fg.map(ct_color), background_color: m.bg.map(ct_color), underline_color: m.ul.map(ct_color), attributes }
}

// ------------------------------------------------------------------ owo
fn owo_color(c: MColor) -> owo_colors::DynColors {
    use owo_colors::AnsiColors::*;
    const NAMES: [owo_colors::AnsiColors; 16] = [Black, Red, Green, Yellow, Blue, Magenta, Cyan, White, BrightBlack, BrightRed, BrightGreen, BrightYellow, BrightBlue, BrightMagenta, BrightCyan, BrightWhite];
    match c {
        MColor::Ansi(k) => owo_colors::DynColors::Ansi(NAMES[k as usize & 15]),
        MColor::Idx(n) => owo_colors::DynColors::Xterm(owo_colors::XtermColors::from(n)),
        MColor::Rgb(r, g, b) => owo_colors::DynColors::Rgb(r, g, b),
    }
}
fn expect_owo(m: &MStyle) -> owo_colors::Style {
    let mut s = owo_colors::Style::new();
    if let Some(c) = m.fg {
        s = s.color(owo_color(c));
    }
    if let Some(c) = m.bg {
        s = s.on_color(owo_color(c));
    }
    if has(m, sgr::BOLD) {
        s = s.bold();
    }
    if has(m, sgr::DIMMED) {
        s = s.dimmed();
    }
    if has(m, sgr::ITALIC) {
        s = s.italic();
    }
    if has(m, sgr::UNDERLINE) {
        s = s.underline();
    }
    if has(m, sgr::BLINK) {
        s = s.blink();
    }
    if has(m, sgr::INVERT) {
        s = s.reversed();
    }
    if has(m, sgr::HIDDEN) {
        s = s.hidden();
    }
    if has(m, sgr::STRIKETHROUGH) {
        s = s.strikethrough();
    }
    s
}

// ------------------------------------------------------------ termcolor
fn tc_color(c: MColor) -> termcolor::Color {
    use termcolor::Color::*;
    const HUES: [termcolor::Color; 8] = [Black, Red, Green, Yellow, Blue, Magenta, Cyan, White];
    match c {
        MColor::Ansi(k) => HUES[k as usize % 8].clone(),
        MColor::Idx(n) => Ansi256(n),
        MColor::Rgb(r, g, b) => Rgb(r, g, b),
    }
}
/// termcolor has ONE `intense` flag for both grounds (it turns the eight named colours into their
/// bright versions). The adapter may leave it alone (brightness dropped, as it always has) or - the
/// only way to keep brightness without altering a hue - set it when at least one slot holds a bright
/// named colour and no slot a normal one. Both are accepted; `intense` on a normal colour is not.
fn termcolor_can_keep_brightness(m: &MStyle) -> bool {
    let named: Vec<u8> = [m.fg, m.bg].into_iter().flatten().filter_map(|c| if let MColor::Ansi(k) = c { Some(k) } else { None }).collect();
    !named.is_empty() && named.iter().all(|k| *k >= 8)
}

fn expect_termcolor(m: &MStyle, alt: u8) -> termcolor::ColorSpec {
    let mut s = termcolor::ColorSpec::new();
    s.set_intense(alt != 0);
    s.set_fg(m.fg.map(tc_color));
    s.set_bg(m.bg.map(tc_color));
    s.set_bold(has(m, sgr::BOLD));
    s.set_dimmed(has(m, sgr::DIMMED));
    s.set_italic(has(m, sgr::ITALIC));
    s.set_underline(has(m, sgr::UNDERLINE));
    s.set_strikethrough(has(m, sgr::STRIKETHROUGH));
    s
}

// ---------------------------------------------------------------- yansi
fn ya_color(c: MColor) -> yansi::Color {
    use yansi::Color::*;
    const NAMES: [yansi::Color; 16] = [Black, Red, Green, Yellow, Blue, Magenta, Cyan, White, BrightBlack, BrightRed, BrightGreen, BrightYellow, BrightBlue, BrightMagenta, BrightCyan, BrightWhite];
    match c {
        MColor::Ansi(k) => NAMES[k as usize & 15],
        MColor::Idx(n) => Fixed(n),
        MColor::Rgb(r, g, b) => Rgb(r, g, b),
    }
}
fn expect_yansi(m: &MStyle) -> yansi::Style {
    let mut s = yansi::Style::new().fg(m.fg.map(ya_color).unwrap_or(yansi::Color::Primary)).bg(m.bg.map(ya_color).unwrap_or(yansi::Color::Primary));
    if has(m, sgr::BOLD) {
        s = s.bold();
    }
    if has(m, sgr::DIMMED) {
        s = s.dim();
    }
    if has(m, sgr::ITALIC) {
        s = s.italic();
    }
    if has(m, sgr::UNDERLINE) {
        s = s.underline();
    }
    if has(m, sgr::BLINK) {
        s = s.blink();
    }
    if has(m, sgr::INVERT) {
        s = s.invert();
    }
    if has(m, sgr::HIDDEN) {
        s = s.conceal();
    }
    if has(m, sgr::STRIKETHROUGH) {
        s = s.strike();
    }
    s
}

// -------------------------------------------------------------- renders
const MARK: char = '\u{2588}';

fn render_ansi_term(s: &ansi_term::Style) -> String {
    format!("{}{MARK}", s.prefix())
}
fn render_crossterm(s: &crossterm::style::ContentStyle) -> String {
    format!("{}", crossterm::style::StyledContent::new(*s, MARK))
}
fn render_owo(s: &owo_colors::Style) -> String {
    format!("{}", s.style(MARK))
}
fn render_termcolor(s: &termcolor::ColorSpec) -> String {
    use termcolor::WriteColor;
    let mut w = termcolor::Ansi::new(Vec::new());
    w.set_color(s).expect("write to Vec");
    let mut v = w.into_inner();
    v.extend_from_slice(MARK.to_string().as_bytes());
    String::from_utf8(v).expect("termcolor emits ASCII")
}
fn render_yansi(s: &yansi::Style) -> String {
    use yansi::Paint;
    format!("{}", MARK.paint(*s))
}

/// style the terminal has when it reaches the marker
fn interpret(rendered: &str) -> Result<MStyle, String> {
    let chars = sgr::styled_chars(rendered.as_bytes(), |_| false);
    chars
        .iter()
        .find(|(_, c)| *c == MARK)
        .map(|(s, _)| s.canon())
        .ok_or_else(|| format!("marker not printed in {}", esc(rendered.as_bytes())))
}

/// the input projected on what the adapter's target can express
fn projection(a: Adapter, m: &MStyle, alt: u8) -> MStyle {
    let hue = |c: MColor| match c {
        MColor::Ansi(k) => MColor::Ansi(k % 8),
        c => c,
    };
    let mut p = MStyle { fg: m.fg, bg: m.bg, ul: None, effects: m.effects & CLASSIC };
    match a {
        Adapter::AnsiTerm => {
            if alt & 1 == 0 {
                if matches!(m.fg, Some(MColor::Ansi(k)) if k >= 8) {
                    p.effects |= sgr::BOLD;
                }
                p.fg = m.fg.map(hue);
            }
            if alt & 2 == 0 {
                p.bg = m.bg.map(hue);
            }
        }
        Adapter::Crossterm => {
            p.ul = m.ul;
            // crossterm can express all five underline kinds (F21); a terminal has one at a time and
            // the kinds are emitted in declaration order, so the last one set is the one in force
            let kinds = m.effects & sgr::UL_KINDS;
            if kinds != 0 {
                let last = 1u16 << (15 - kinds.leading_zeros() as u16);
                p.effects = (p.effects & !sgr::UL_KINDS) | last;
            }
        }
        Adapter::Owo | Adapter::Yansi => {}
        Adapter::Termcolor => {
            if alt == 0 {
                p.fg = m.fg.map(hue);
                p.bg = m.bg.map(hue);
            }
            p.effects &= sgr::BOLD | sgr::DIMMED | sgr::ITALIC | sgr::UNDERLINE | sgr::STRIKETHROUGH;
        }
    }
    p.canon()
}

/// Value-level comparison modulo spellings the property does not distinguish: an unset colour
/// slot and the library's explicit "default colour" value denote the same thing.
trait NormalForm: Clone {
    fn normal(self) -> Self;
}
impl NormalForm for yansi::Style {
    fn normal(mut self) -> Self {
        if self.foreground == Some(yansi::Color::Primary) {
            self.foreground = None;
        }
        if self.background == Some(yansi::Color::Primary) {
            self.background = None;
        }
        self
    }
}
impl NormalForm for crossterm::style::ContentStyle {
    fn normal(mut self) -> Self {
        use crossterm::style::Color;
        for slot in [&mut self.foreground_color, &mut self.background_color, &mut self.underline_color] {
            if *slot == Some(Color::Reset) {
                *slot = None;
            }
        }
        self
    }
}
impl NormalForm for ansi_term::Style {
    fn normal(self) -> Self {
        self
    }
}
impl NormalForm for owo_colors::Style {
    fn normal(self) -> Self {
        self
    }
}
impl NormalForm for termcolor::ColorSpec {
    fn normal(self) -> Self {
        self
    }
}
fn normal_form<T: NormalForm>(x: &T) -> T {
    x.clone().normal()
}

/// The libraries' process-wide colour switches in their neutral position (some read NO_COLOR
/// lazily, once): rendering must not depend on the caller's environment.
fn neutral_libraries() {
    crossterm::style::force_color_output(true);
    yansi::enable();
}

/// When set, every *conversion* runs while the environment says "no colour" in every convention
/// and the libraries' own switches are off; rendering happens afterwards with everything back in
/// the neutral position. A conversion is a function of the style alone. (Single-threaded use only.)
static HOSTILE_CONVERSION: std::sync::atomic::AtomicBool = std::sync::atomic::AtomicBool::new(false);

fn convert<T>(f: impl FnOnce() -> T) -> T {
    if !HOSTILE_CONVERSION.load(std::sync::atomic::Ordering::Relaxed) {
        return f();
    }
    let r = rt::with_env(rt::HOSTILE_ENVS[0].1, || {
        yansi::disable();
        crossterm::style::force_color_output(false);
        f()
    });
    neutral_libraries();
    r
}

/// Returns Ok(render layer applied?)
fn check(a: Adapter, m: &MStyle) -> Result<bool, String> {
    check_with(a, m, true)
}

/// `exclude_known`: leave the class of the open finding F26 to the value level (the finding itself is
/// replayed with `false`, from KNOWN_FINDINGS.json)
fn check_with(a: Adapter, m: &MStyle, exclude_known: bool) -> Result<bool, String> {
    // the readings of "brightness is kept wherever the target can express it" that are accepted
    let bright = |c: Option<MColor>| matches!(c, Some(MColor::Ansi(k)) if k >= 8);
    let alts: Vec<u8> = match a {
        Adapter::Termcolor if termcolor_can_keep_brightness(m) => vec![0, 1],
        Adapter::AnsiTerm => (0..4u8).filter(|alt| (alt & 1 == 0 || bright(m.fg)) && (alt & 2 == 0 || bright(m.bg))).collect(),
        _ => vec![0],
    };
    let mut first_err = None;
    for alt in alts {
        match check_alt(a, m, exclude_known, alt) {
            Ok(r) => return Ok(r),
            Err(e) => first_err = first_err.or(Some(e)),
        }
    }
    Err(first_err.unwrap())
}

fn check_alt(a: Adapter, m: &MStyle, exclude_known: bool, alt: u8) -> Result<bool, String> {
    let style = to_style(*m);
    let want = projection(a, m, alt);
    macro_rules! layer {
        ($conv:expr, $expect:expr, $render:expr, $skip_render:expr) => {{
            let got = convert(|| $conv);
            let exp = $expect;
            // Value level: the converted value must be *equivalent* to the one built from the harness's
            // own tables through the library's public constructors - equal in normal form, or rendered
            // by the library to the same bytes (a library may have several values for one request:
            // indexed colour 1 as AnsiValue(1) or as its named variant, an unset slot or the explicit
            // default colour, ...)
            if normal_form(&got) != normal_form(&exp) && $render(&got) != $render(&exp) {
                return Err(format!("{:?}: [{}] converts to {:?}, expected {:?}", a, m.describe(), got, exp));
            }
            // the render layer is only meaningful where the library renders the
            // harness-built value correctly
            let lib = interpret(&$render(&exp))?;
            if $skip_render || lib != want {
                if !$skip_render {
                    return Err(format!(
                        "{:?}: [{}] is rendered by the library (also from a value built by hand through its constructors) as {} which a terminal shows as [{}], expected [{}]",
                        a, m.describe(), esc($render(&exp).as_bytes()), lib.describe(), want.describe()
                    ));
                }
                false
            } else {
                let r = $render(&got);
                let shown = interpret(&r)?;
                if shown != want {
                    return Err(format!("{:?}: [{}] renders as {} which a terminal shows as [{}], expected [{}]", a, m.describe(), esc(r.as_bytes()), shown.describe(), want.describe()));
                }
                true
            }
        }};
    }
    Ok(match a {
        Adapter::AnsiTerm => layer!(anstyle_ansi_term::to_ansi_term(style), expect_ansi_term(m, alt), render_ansi_term, false),
        Adapter::Crossterm => layer!(anstyle_crossterm::to_crossterm(style), expect_crossterm(m), render_crossterm, false),
        Adapter::Owo => {
            // owo-colors 4.0.0 (the version in the lock file, and admitted by the adapter's
            // requirement "4.0.0") omits the ';' after a background when no foreground is set and an
            // effect follows (bg bright-blue + bold -> ESC[1041m; fixed upstream in 4.2.2): open
            // finding F26, excluded by construction here and replayed from KNOWN_FINDINGS.json
            let defect = exclude_known && m.fg.is_none() && m.bg.is_some() && m.effects & CLASSIC != 0;
            layer!(anstyle_owo_colors::to_owo_style(style), expect_owo(m), render_owo, defect)
        }
        Adapter::Termcolor => layer!(anstyle_termcolor::to_termcolor_spec(style), expect_termcolor(m, alt), render_termcolor, false),
        Adapter::Yansi => layer!(anstyle_yansi::to_yansi_style(style), expect_yansi(m), render_yansi, false),
    })
}

fn check_colors_api(c: MColor) -> Result<(), String> {
    let col = sgr::to_color(c);
    if anstyle_owo_colors::to_owo_colors(col) != owo_color(c) {
        return Err(format!("to_owo_colors({:?})", c));
    }
    if anstyle_termcolor::to_termcolor_color(col) != tc_color(c) {
        return Err(format!("to_termcolor_color({:?})", c));
    }
    if anstyle_yansi::to_yansi_color(col) != ya_color(c) {
        return Err(format!("to_yansi_color({:?})", c));
    }
    Ok(())
}

fn all_colors() -> Vec<MColor> {
    let mut v: Vec<MColor> = (0..16).map(MColor::Ansi).collect();
    v.extend((0..=255).map(MColor::Idx));
    let lv = [0u8, 1, 51, 95, 128, 175, 200, 254, 255];
    for r in lv {
        for g in lv {
            for b in lv {
                v.push(MColor::Rgb(r, g, b));
            }
        }
    }
    // every RGB value that an indexed palette names exactly (xterm cube levels, greys, VGA, Win10)
    v.extend(vcore::palette::special_rgb().into_iter().map(|(r, g, b)| MColor::Rgb(r, g, b)));
    v
}

fn arb_color() -> impl Strategy<Value = MColor> {
    prop_oneof![
        (0u8..16).prop_map(MColor::Ansi),
        any::<u8>().prop_map(MColor::Idx),
        (any::<u8>(), any::<u8>(), any::<u8>()).prop_map(|(r, g, b)| MColor::Rgb(r, g, b)),
    ]
}

fn arb_style() -> impl Strategy<Value = MStyle> {
    (proptest::option::weighted(0.75, arb_color()), proptest::option::weighted(0.6, arb_color()), proptest::option::weighted(0.4, arb_color()), 0u16..4096)
        .prop_map(|(fg, bg, ul, effects)| MStyle { fg, bg, ul, effects })
}

fn check_syntect(fg: (u8, u8, u8, u8), bg: (u8, u8, u8, u8), font: u8) -> Result<(), String> {
    use syntect::highlighting::{Color, FontStyle, Style};
    let fs = FontStyle::from_bits_truncate(font);
    let st = Style { foreground: Color { r: fg.0, g: fg.1, b: fg.2, a: fg.3 }, background: Color { r: bg.0, g: bg.1, b: bg.2, a: bg.3 }, font_style: fs };
    let got = sgr::from_style(anstyle_syntect::to_anstyle(st));
    let mut e = 0;
    if fs.contains(FontStyle::BOLD) {
        e |= sgr::BOLD;
    }
    if fs.contains(FontStyle::ITALIC) {
        e |= sgr::ITALIC;
    }
    if fs.contains(FontStyle::UNDERLINE) {
        e |= sgr::UNDERLINE;
    }
    let want = MStyle { fg: Some(MColor::Rgb(fg.0, fg.1, fg.2)), bg: Some(MColor::Rgb(bg.0, bg.1, bg.2)), ul: None, effects: e };
    if got != want {
        return Err(format!("to_anstyle({:?}) = [{}], expected [{}]", st, got.describe(), want.describe()));
    }
    if sgr::from_color(anstyle_syntect::to_anstyle_color(st.foreground)) != MColor::Rgb(fg.0, fg.1, fg.2) || sgr::from_effects(anstyle_syntect::to_anstyle_effects(fs)) != e {
        return Err("to_anstyle_color / to_anstyle_effects".into());
    }
    Ok(())
}

fn run(args: &Args, rep: &mut Report) {
    let tier = args.tier;
    neutral_libraries();
    rep.assume("what each target library can express is an explicit table in this check (projection()), taken from the public API of the library versions in the lock file: crossterm - the eight classic effects, the four further underline kinds and an underline colour; termcolor - bold/dim/italic/underline/strikethrough, brightness either dropped or kept through the one `intense` flag where that alters no hue; ansi_term - a bright colour either as hue (+ bold for a foreground) or exactly as Fixed(8+k)");
    rep.assume("styles with a background, no foreground and one of the eight classic effects are decided at value level only for owo-colors: the pinned owo-colors 4.0.0 renders them without the ';' separator (open known finding F26, replayed separately)");
    let colors = all_colors();
    let n = rt::workers();
    let cover_effects: Vec<u16> = std::iter::once(0).chain((0..12).map(|i| 1u16 << i)).chain([4095, sgr::BOLD | sgr::UNDERLINE]).collect();
    // colours x covering effects
    let accs = rt::par(n, |w| {
        let mut acc = Acc::new();
        let mut seen = [[false; 16]; 3];
        for (i, c) in colors.iter().enumerate() {
            if i % n != w {
                continue;
            }
            if let Err(m) = check_colors_api(*c) {
                acc.fail("colours-per-slot", json!({"adapter": "api", "style": MStyle { fg: Some(*c), ..Default::default() }}), m);
                return acc;
            }
            for slot in 0..3 {
                for &e in &cover_effects {
                    let mut m = MStyle { effects: e, ..Default::default() };
                    match slot {
                        0 => m.fg = Some(*c),
                        1 => m.bg = Some(*c),
                        _ => m.ul = Some(*c),
                    }
                    if let MColor::Ansi(k) = c {
                        seen[slot][*k as usize] = true;
                    }
                    for a in ADAPTERS {
                        acc.eval();
                        match rt::guarded(|| check(a, &m)) {
                            Ok(rendered) => {
                                if e != 0 {
                                    acc.nontrivial_distinct();
                                }
                                if !rendered {
                                    acc.class("excluded:known-finding-F26(owo-colors 4.0.0, background + effect without foreground; value level only)");
                                }
                                acc.sample(|| json!({"adapter": format!("{:?}", a), "style": m.describe()}));
                            }
                            Err(msg) => {
                                acc.fail("colours-per-slot", json!({"adapter": a, "style": m}), msg);
                                return acc;
                            }
                        }
                    }
                }
            }
        }
        acc
    });
    rep.add("colours-per-slot", true, &format!("{} colours (16 + 256 + 9^3 lattice + the RGB values of the xterm / VGA / Win10 palettes) x 3 slots x {} effect sets x 5 adapters", colors.len(), cover_effects.len()), accs);

    // effect sets x covering colours
    let cover_colors: Vec<(Option<MColor>, Option<MColor>, Option<MColor>)> = vec![
        (None, None, None),
        (Some(MColor::Ansi(1)), None, None),
        (None, Some(MColor::Ansi(12)), None),
        (Some(MColor::Ansi(12)), Some(MColor::Ansi(3)), None),
        // every pairing of colour kinds in (fg, bg), so that an interaction between two slots and an effect cannot hide
        (Some(MColor::Ansi(3)), Some(MColor::Ansi(12)), None),
        (Some(MColor::Ansi(9)), Some(MColor::Idx(100)), None),
        (Some(MColor::Ansi(1)), Some(MColor::Rgb(4, 5, 6)), None),
        (Some(MColor::Idx(20)), Some(MColor::Ansi(2)), None),
        (Some(MColor::Idx(21)), Some(MColor::Idx(22)), Some(MColor::Idx(23))),
        (Some(MColor::Rgb(7, 8, 9)), Some(MColor::Ansi(10)), None),
        (Some(MColor::Rgb(10, 20, 30)), Some(MColor::Idx(40)), None),
        (Some(MColor::Rgb(10, 20, 30)), Some(MColor::Rgb(40, 50, 60)), None),
        (Some(MColor::Rgb(1, 1, 1)), Some(MColor::Rgb(1, 1, 1)), Some(MColor::Rgb(1, 1, 1))),
        (Some(MColor::Idx(200)), Some(MColor::Rgb(1, 2, 3)), Some(MColor::Idx(9))),
        (Some(MColor::Rgb(255, 0, 128)), None, Some(MColor::Rgb(9, 8, 7))),
    ];
    let accs = rt::par(n, |w| {
        let mut acc = Acc::new();
        for e in (0u16..4096).filter(|e| *e as usize % n == w) {
            for (fg, bg, ul) in &cover_colors {
                let m = MStyle { fg: *fg, bg: *bg, ul: *ul, effects: e };
                for a in ADAPTERS {
                    acc.eval();
                    match rt::guarded(|| check(a, &m)) {
                        Ok(rendered) => {
                            if e != 0 && (fg.is_some() || bg.is_some() || ul.is_some()) {
                                acc.nontrivial_distinct();
                            }
                            if !rendered {
                                acc.class("excluded:known-finding-F26(owo-colors 4.0.0, background + effect without foreground; value level only)");
                            }
                        }
                        Err(msg) => {
                            acc.fail("effect-sets", json!({"adapter": a, "style": m}), msg);
                            return acc;
                        }
                    }
                }
            }
            acc.sample(|| json!({"effects": e}));
        }
        acc
    });
    rep.add("effect-sets", true, "all 4096 effect sets x 6 colour combinations x 5 adapters", accs);

    // slot interactions: every assignment of a small colour set (incl. unset and equal
    // colours in different slots) to the three slots
    let reps: Vec<Option<MColor>> = vec![None, Some(MColor::Ansi(0)), Some(MColor::Ansi(4)), Some(MColor::Ansi(12)), Some(MColor::Idx(4)), Some(MColor::Idx(200)), Some(MColor::Rgb(10, 20, 30)), Some(MColor::Rgb(0, 0, 0))];
    let accs = rt::par(reps.len(), |w| {
        let mut acc = Acc::new();
        for bg in &reps {
            for ul in &reps {
                for e in [0u16, sgr::BOLD, sgr::UNDERLINE | sgr::ITALIC, 4095] {
                    let m = MStyle { fg: reps[w], bg: *bg, ul: *ul, effects: e };
                    for a in ADAPTERS {
                        acc.eval();
                        match rt::guarded(|| check(a, &m)) {
                            Ok(_) => {
                                if e != 0 && !(m.fg.is_none() && m.bg.is_none() && m.ul.is_none()) {
                                    acc.nontrivial_distinct();
                                }
                            }
                            Err(msg) => {
                                acc.fail("slot-interactions", json!({"adapter": a, "style": m}), msg);
                                return acc;
                            }
                        }
                    }
                }
            }
        }
        acc.samples.push(json!({"fg": format!("{:?}", reps[w]), "bg/ul": "all 8 x 8"}));
        acc
    });
    rep.add("slot-interactions", true, "8 x 8 x 8 colour assignments to (fg, bg, underline) incl. unset and equal colours x 4 effect sets x 5 adapters", accs);

    // single-threaded: the environment and the libraries' switches are process-wide
    {
        let mut acc = Acc::new();
        HOSTILE_CONVERSION.store(true, std::sync::atomic::Ordering::Relaxed);
        let some = [None, Some(MColor::Ansi(1)), Some(MColor::Ansi(12)), Some(MColor::Idx(200)), Some(MColor::Rgb(1, 2, 3))];
        'hostile: for a in ADAPTERS {
            for fg in some {
                for bg in some {
                    for effects in [0u16, sgr::BOLD, sgr::ITALIC | sgr::UNDERLINE, sgr::STRIKETHROUGH | sgr::DIMMED, sgr::INVERT] {
                        let m = MStyle { fg, bg, ul: if effects == sgr::BOLD { Some(MColor::Idx(9)) } else { None }, effects };
                        acc.eval();
                        match rt::guarded(|| check(a, &m)) {
                            Ok(_) => {
                                if !m.is_plain() {
                                    acc.nontrivial_distinct();
                                }
                                acc.sample(|| json!({"adapter": format!("{:?}", a), "style": m.describe()}));
                            }
                            Err(msg) => {
                                acc.fail("conversion-under-hostile-ambient-state", json!({"adapter": a, "style": m}), format!("converted while NO_COLOR=1 / CLICOLOR=0 / TERM=dumb were set and yansi / crossterm colour output was switched off, rendered after everything was switched back: {msg}"));
                                break 'hostile;
                            }
                        }
                    }
                }
            }
        }
        HOSTILE_CONVERSION.store(false, std::sync::atomic::Ordering::Relaxed);
        neutral_libraries();
        rep.add("conversion-under-hostile-ambient-state", true, "5 adapters x 5 x 5 colour pairs x 5 effect sets: converted under a no-colour environment with the libraries' colour switches off, rendered in the neutral state (a conversion depends on the style alone)", vec![acc]);
    }

    rep.add(
        "random-styles",
        false,
        "seeded random full styles x 5 adapters",
        prop_par(
            "random-styles",
            args.seed,
            tier.pick(60_000, 10_000_000),
            || (arb_style(), prop::sample::select(ADAPTERS.to_vec())),
            |(m, a), acc: &mut Acc| match check(*a, m) {
                Ok(rendered) => {
                    if !rendered {
                        acc.class("excluded:known-finding-F26(owo-colors 4.0.0, background + effect without foreground; value level only)");
                    }
                    let nt = (m.fg.is_some() || m.bg.is_some() || m.ul.is_some()) && m.effects != 0;
                    Verdict::ok(nt.then(|| digest_str(&format!("{:?}{}", a, m.describe()))))
                }
                Err(msg) => Verdict { result: Err(msg), nontrivial: None },
            },
            |(m, a)| json!({"adapter": a, "style": m}),
        ),
    );
    rep.add(
        "syntect",
        false,
        "random syntect styles incl. alpha and all font-style bit patterns",
        prop_par(
            "syntect",
            args.seed,
            tier.pick(40_000, 400_000),
            || (any::<(u8, u8, u8, u8)>(), any::<(u8, u8, u8, u8)>(), any::<u8>()),
            |(fg, bg, font), _| match check_syntect(*fg, *bg, *font) {
                Ok(()) => Verdict::ok(Some(digest_str(&format!("{:?}{:?}{}", fg, bg, font)))),
                Err(m) => Verdict { result: Err(m), nontrivial: None },
            },
            |(fg, bg, font)| json!({"syntect": {"fg": [fg.0, fg.1, fg.2, fg.3], "bg": [bg.0, bg.1, bg.2, bg.3], "font": font}}),
        ),
    );
}

fn replay(sub: &str, case: &Value) -> Result<(), String> {
    neutral_libraries();
    if sub == "conversion-under-hostile-ambient-state" {
        let m: MStyle = serde_json::from_value(case["style"].clone()).map_err(|e| format!("bad case: {e}"))?;
        let a: Adapter = serde_json::from_value(case["adapter"].clone()).map_err(|e| format!("bad case: {e}"))?;
        HOSTILE_CONVERSION.store(true, std::sync::atomic::Ordering::Relaxed);
        let r = check(a, &m).map(|_| ());
        HOSTILE_CONVERSION.store(false, std::sync::atomic::Ordering::Relaxed);
        return r;
    }
    if let Some(s) = case.get("syntect") {
        let q = |v: &Value| {
            let a: Vec<u8> = v.as_array().map(|a| a.iter().map(|x| x.as_u64().unwrap_or(0) as u8).collect()).unwrap_or_default();
            (a.first().copied().unwrap_or(0), a.get(1).copied().unwrap_or(0), a.get(2).copied().unwrap_or(0), a.get(3).copied().unwrap_or(0))
        };
        return check_syntect(q(&s["fg"]), q(&s["bg"]), s["font"].as_u64().unwrap_or(0) as u8);
    }
    let m: MStyle = serde_json::from_value(case["style"].clone()).map_err(|e| format!("bad case: {e}"))?;
    if case["adapter"] == "api" {
        for c in [m.fg, m.bg, m.ul].into_iter().flatten() {
            check_colors_api(c)?;
        }
        return Ok(());
    }
    let a: Adapter = serde_json::from_value(case["adapter"].clone()).map_err(|e| format!("bad case: {e}"))?;
    check_with(a, &m, sub != "known-finding").map(|_| ())
}

fn main() {
    rt::quiet_panics();
    rt::main("C16", RULE, run, &replay)
}
