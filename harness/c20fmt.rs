// Canonical one-line rendering of parser events, shared (by #[path]) between
// the C20 worker (real parser callbacks) and the C20 check (reference model).
pub fn hex(b: &[u8]) -> String {
    let mut s = String::new();
    for x in b {
        s.push_str(&format!("{:02x}", x));
    }
    s
}
pub fn groups(g: &[Vec<u16>]) -> String {
    g.iter()
        .map(|p| p.iter().map(|v| v.to_string()).collect::<Vec<_>>().join(":"))
        .collect::<Vec<_>>()
        .join(",")
}
pub fn print(c: char) -> String {
    format!("P{:x}", c as u32)
}
pub fn exec(b: u8) -> String {
    format!("X{:02x}", b)
}
pub fn csi(g: &[Vec<u16>], inter: &[u8], ignore: bool, fin: u8) -> String {
    format!("C[{}|{}|{}|{:02x}]", groups(g), hex(inter), ignore as u8, fin)
}
pub fn esc(inter: &[u8], ignore: bool, fin: u8) -> String {
    format!("E[{}|{}|{:02x}]", hex(inter), ignore as u8, fin)
}
pub fn hook(g: &[Vec<u16>], inter: &[u8], ignore: bool, fin: u8) -> String {
    format!("H[{}|{}|{}|{:02x}]", groups(g), hex(inter), ignore as u8, fin)
}
pub fn put(b: u8) -> String {
    format!("U{:02x}", b)
}
pub fn unhook() -> String {
    "K".to_owned()
}
pub fn osc(fields: &[Vec<u8>], bell: bool) -> String {
    format!("O[{}|{}]", fields.iter().map(|f| hex(f)).collect::<Vec<_>>().join(","), bell as u8)
}
