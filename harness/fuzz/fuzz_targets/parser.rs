#![no_main]
//! libFuzzer target 'parser': the semantic oracle of the corresponding check runs
//! inside the target (checks::oracle::fuzz_parser); a violation panics.
use libfuzzer_sys::fuzz_target;

fuzz_target!(|data: &[u8]| {
    if let Err(m) = checks::oracle::fuzz_parser(data) {
        panic!("VIOLATION {}", m);
    }
});
