//! Thin wrappers around the code under test.

use anstyle_parse::{Params, Parser, Perform};
use vcore::vt::Ev;

/// Records parser callbacks as reference-model events, and checks the
/// `Params` accessors against each other on the way.
#[derive(Default)]
pub struct Recorder {
    pub ev: Vec<Ev>,
    pub api_errors: Vec<String>,
}

impl Recorder {
    fn groups(&mut self, p: &Params, overflow: bool) -> Vec<Vec<u16>> {
        let groups: Vec<Vec<u16>> = p.iter().map(|x| x.to_vec()).collect();
        let total: usize = groups.iter().map(|g| g.len()).sum();
        if p.len() != total {
            self.api_errors
                .push(format!("Params::len()={} but iter yields {} values", p.len(), total));
        }
        if p.is_empty() != (total == 0) {
            self.api_errors.push("Params::is_empty() inconsistent".into());
        }
        if groups.iter().any(|g| g.is_empty()) {
            self.api_errors.push("Params::iter() yielded an empty group".into());
        }
        let via_into: Vec<Vec<u16>> = (&*p).into_iter().map(|x| x.to_vec()).collect();
        if via_into != groups {
            self.api_errors.push("IntoIterator for &Params differs from iter()".into());
        }
        // The Debug text of Params is not part of any property (its layout may change); it only has
        // to be produced without panicking.
        let _ = format!("{:?}", p);
        // "the same arguments": a parameter list must compare equal (the type's own `==`) to the
        // list a fresh parser reports for the same parameters, whatever this parser saw before
        // (audit wave 2, F29: the derived PartialEq compared stale slots beyond len())
        // (not when the list overflowed: its last group may still be open, which is parser state, not content)
        if total <= 32 && !overflow {
            let spelled: Vec<String> = groups.iter().map(|g| g.iter().map(|v| v.to_string()).collect::<Vec<_>>().join(":")).collect();
            let mut fresh = FreshParams(None);
            let mut parser = new_parser();
            for b in format!("\x1b[{}m", spelled.join(";")).bytes() {
                parser.advance(&mut fresh, b);
            }
            match fresh.0 {
                Some(f) if f.iter().map(|x| x.to_vec()).collect::<Vec<_>>() == groups => {
                    #[allow(clippy::eq_op)]
                    if !(*p == f && f == *p && p.clone() == *p) {
                        self.api_errors.push(format!("Params {:?} is not == to the Params a fresh parser reports for the same parameter list (stale state from earlier sequences takes part in the comparison)", groups));
                    }
                }
                _ => {}
            }
        }
        groups
    }
}

/// keeps the parameter list of the first CSI dispatch
struct FreshParams(Option<Params>);
impl Perform for FreshParams {
    fn csi_dispatch(&mut self, p: &Params, _i: &[u8], _ig: bool, _a: u8) {
        if self.0.is_none() {
            self.0 = Some(p.clone());
        }
    }
}

impl Perform for Recorder {
    fn print(&mut self, c: char) {
        self.ev.push(Ev::Print(c));
    }
    fn execute(&mut self, b: u8) {
        self.ev.push(Ev::Exec(b));
    }
    fn hook(&mut self, p: &Params, i: &[u8], ig: bool, a: u8) {
        let groups = self.groups(p, ig);
        self.ev.push(Ev::Hook {
            groups,
            inter: i.to_vec(),
            ignore: ig,
            fin: a,
        });
    }
    fn put(&mut self, b: u8) {
        self.ev.push(Ev::Put(b));
    }
    fn unhook(&mut self) {
        self.ev.push(Ev::Unhook);
    }
    fn osc_dispatch(&mut self, p: &[&[u8]], bell: bool) {
        self.ev.push(Ev::Osc {
            fields: p.iter().map(|x| x.to_vec()).collect(),
            bell,
        });
    }
    fn csi_dispatch(&mut self, p: &Params, i: &[u8], ig: bool, a: u8) {
        let groups = self.groups(p, ig);
        self.ev.push(Ev::Csi {
            groups,
            inter: i.to_vec(),
            ignore: ig,
            fin: a,
        });
    }
    fn esc_dispatch(&mut self, i: &[u8], ig: bool, b: u8) {
        self.ev.push(Ev::Esc {
            inter: i.to_vec(),
            ignore: ig,
            fin: b,
        });
    }
}

pub type RealParser = Parser<anstyle_parse::DefaultCharAccumulator>;

pub fn new_parser() -> RealParser {
    RealParser::new()
}

pub fn parse_events(bytes: &[u8]) -> Recorder {
    let mut r = Recorder::default();
    let mut p = new_parser();
    for b in bytes {
        p.advance(&mut r, *b);
    }
    r
}

/// first difference between two event lists, for messages
pub fn diff_events(real: &[Ev], model: &[Ev]) -> Option<String> {
    if real == model {
        return None;
    }
    let n = real.len().min(model.len());
    for i in 0..n {
        if real[i] != model[i] {
            return Some(format!(
                "event #{i}: parser reported {:?}, reference expects {:?}",
                real[i], model[i]
            ));
        }
    }
    if real.len() > n {
        Some(format!("parser reported an extra event #{n}: {:?}", real[n]))
    } else {
        Some(format!("parser did not report event #{n}: {:?}", model[n]))
    }
}

// ------------------------------------------------------------- strippers

use std::io::Write as _;

/// (offset, len) of `piece` inside `input`, or an error when the piece does
/// not lie inside the input.
pub fn locate(input: &[u8], piece: &[u8]) -> Result<(usize, usize), String> {
    let base = input.as_ptr() as usize;
    let p = piece.as_ptr() as usize;
    if p < base || p + piece.len() > base + input.len() {
        return Err(format!(
            "piece {:?} does not lie inside the input",
            vcore::rt::esc(piece)
        ));
    }
    Ok((p - base, piece.len()))
}

/// Checks that the pieces are in order, non-overlapping sub-slices of the
/// input and returns their concatenation.
pub fn check_pieces(input: &[u8], pieces: &[&[u8]], what: &str) -> Result<Vec<u8>, String> {
    let mut end = 0usize;
    let mut out = Vec::new();
    for p in pieces {
        if p.is_empty() {
            return Err(format!("{what}: yielded an empty piece"));
        }
        let (off, len) = locate(input, p).map_err(|e| format!("{what}: {e}"))?;
        if off < end {
            return Err(format!(
                "{what}: piece at offset {off} overlaps or precedes the previous piece ending at {end}"
            ));
        }
        end = off + len;
        out.extend_from_slice(p);
    }
    Ok(out)
}

pub fn forbidden_byte(out: &[u8]) -> Option<u8> {
    out.iter()
        .copied()
        .find(|b| matches!(b, 0x00..=0x08 | 0x0b | 0x0e..=0x1f | 0x7f))
}

pub fn strip_bytes_pieces(input: &[u8]) -> Result<Vec<u8>, String> {
    let pieces: Vec<&[u8]> = anstream::adapter::strip_bytes(input).collect();
    check_pieces(input, &pieces, "strip_bytes")
}

pub fn strip_bytes_vec(input: &[u8]) -> Vec<u8> {
    anstream::adapter::strip_bytes(input).into_vec()
}

pub fn strip_bytes_incremental_one(input: &[u8]) -> Result<Vec<u8>, String> {
    let mut s = anstream::adapter::StripBytes::new();
    let pieces: Vec<&[u8]> = s.strip_next(input).collect();
    check_pieces(input, &pieces, "StripBytes::strip_next")
}

pub fn strip_stream_write_all(input: &[u8]) -> Result<Vec<u8>, String> {
    let mut s = anstream::StripStream::new(Vec::new());
    s.write_all(input).map_err(|e| format!("StripStream<Vec>::write_all failed: {e}"))?;
    Ok(s.into_inner())
}

pub fn auto_never_write_all(input: &[u8]) -> Result<Vec<u8>, String> {
    let mut s = anstream::AutoStream::never(Vec::new());
    s.write_all(input).map_err(|e| format!("AutoStream::never(Vec)::write_all failed: {e}"))?;
    Ok(s.into_inner())
}

fn str_pieces_checked(input: &str, pieces: &[&str], what: &str) -> Result<Vec<u8>, String> {
    let raw: Vec<&[u8]> = pieces.iter().map(|p| p.as_bytes()).collect();
    for p in &raw {
        if !vcore::vt::is_valid_utf8(p) {
            return Err(format!(
                "{what}: returned a &str that is not valid UTF-8: {}",
                vcore::rt::esc(p)
            ));
        }
    }
    check_pieces(input.as_bytes(), &raw, what)
}

pub fn strip_str_pieces(input: &str) -> Result<Vec<u8>, String> {
    let pieces: Vec<&str> = anstream::adapter::strip_str(input).collect();
    str_pieces_checked(input, &pieces, "strip_str")
}

pub fn strip_str_to_string(input: &str) -> Vec<u8> {
    anstream::adapter::strip_str(input).to_string().into_bytes()
}

pub fn strip_str_display(input: &str) -> Vec<u8> {
    format!("{}", anstream::adapter::strip_str(input)).into_bytes()
}

/// take `k` pieces with `next()`, then render the rest of the same adapter with Display
/// (its documentation: "this does *not* exhaust the Iterator")
pub fn strip_str_next_then_display(input: &str, k: usize) -> Vec<u8> {
    let mut it = anstream::adapter::strip_str(input);
    let mut out = Vec::new();
    for _ in 0..k {
        match it.next() {
            Some(p) => out.extend_from_slice(p.as_bytes()),
            None => break,
        }
    }
    out.extend_from_slice(it.to_string().as_bytes());
    // Display must not have consumed anything: the iterator still yields the rest
    let rest: String = it.collect();
    let _ = rest;
    out
}

/// the same for the byte adapter: `next()` k times, then `into_vec()` of the remainder
pub fn strip_bytes_next_then_into_vec(input: &[u8], k: usize) -> Vec<u8> {
    let mut it = anstream::adapter::strip_bytes(input);
    let mut out = Vec::new();
    for _ in 0..k {
        match it.next() {
            Some(p) => out.extend_from_slice(p),
            None => break,
        }
    }
    out.extend(it.into_vec());
    out
}

pub fn strip_str_incremental_one(input: &str) -> Result<Vec<u8>, String> {
    let mut s = anstream::adapter::StripStr::new();
    let pieces: Vec<&str> = s.strip_next(input).collect();
    str_pieces_checked(input, &pieces, "StripStr::strip_next")
}

// ------------------------------------------------- incremental interfaces

pub fn strip_bytes_chunked(chunks: &[&[u8]]) -> Result<Vec<u8>, String> {
    let mut s = anstream::adapter::StripBytes::new();
    let mut out = Vec::new();
    for c in chunks {
        let pieces: Vec<&[u8]> = s.strip_next(c).collect();
        out.extend(check_pieces(c, &pieces, "StripBytes::strip_next")?);
    }
    Ok(out)
}

/// `StrippedBytes::extend`: "used when the content is in several non-contiguous slices"
pub fn stripped_bytes_extend_chunked(chunks: &[&[u8]]) -> Result<Vec<u8>, String> {
    let mut it = anstream::adapter::strip_bytes(chunks.first().copied().unwrap_or(&[]));
    let mut out = Vec::new();
    for (i, c) in chunks.iter().enumerate() {
        if i > 0 {
            if !it.is_empty() {
                return Err("StrippedBytes::is_empty() is false after the iterator returned None".into());
            }
            it.extend(c);
        }
        let mut pieces: Vec<&[u8]> = Vec::new();
        for p in it.by_ref() {
            pieces.push(p);
        }
        out.extend(check_pieces(c, &pieces, "StrippedBytes::extend")?);
    }
    Ok(out)
}

pub fn strip_str_chunked(chunks: &[&str]) -> Result<Vec<u8>, String> {
    let mut s = anstream::adapter::StripStr::new();
    let mut out = Vec::new();
    for c in chunks {
        let pieces: Vec<&str> = s.strip_next(c).collect();
        out.extend(str_pieces_checked(c, &pieces, "StripStr::strip_next")?);
    }
    Ok(out)
}

pub fn strip_stream_write_all_chunked(chunks: &[&[u8]]) -> Result<Vec<u8>, String> {
    let mut s = anstream::StripStream::new(Vec::new());
    for c in chunks {
        s.write_all(c).map_err(|e| format!("write_all failed: {e}"))?;
    }
    Ok(s.into_inner())
}

pub fn strip_stream_write_chunked(chunks: &[&[u8]]) -> Result<Vec<u8>, String> {
    let mut s = anstream::StripStream::new(Vec::new());
    for c in chunks {
        let mut rest: &[u8] = c;
        if rest.is_empty() {
            // a zero-length write is legal and must report 0
            let n = s.write(rest).map_err(|e| format!("write of an empty buffer failed: {e}"))?;
            if n != 0 {
                return Err(format!("write returned {n} for an empty buffer"));
            }
        }
        while !rest.is_empty() {
            let n = s.write(rest).map_err(|e| format!("write failed: {e}"))?;
            if n == 0 || n > rest.len() {
                return Err(format!("write returned {n} for a buffer of {}", rest.len()));
            }
            rest = &rest[n..];
        }
    }
    Ok(s.into_inner())
}

pub type StyledChars = Vec<(anstyle::Style, char)>;

pub fn extract_chunked(chunks: &[&[u8]]) -> StyledChars {
    let mut w = anstream::adapter::WinconBytes::new();
    let mut out = vec![];
    for c in chunks {
        for (style, text) in w.extract_next(c) {
            for ch in text.chars() {
                out.push((style, ch));
            }
        }
    }
    out
}

/// styled runs as yielded (for checks that look at run structure)
pub fn extract_runs(chunks: &[&[u8]]) -> Vec<(anstyle::Style, String)> {
    let mut w = anstream::adapter::WinconBytes::new();
    let mut out = vec![];
    for c in chunks {
        out.extend(w.extract_next(c));
    }
    out
}
