//! Thin wrappers around the code under test.

use anstyle_parse::{Params, Parser, Perform};
use vcore::vt::Ev;

/// Records parser callbacks as reference-model events, and checks the
/// `Params` accessors against each other on the way.
#[derive(Default)]
pub struct Recorder {
    pub ev: Vec<Ev>,
    pub api_errors: Vec<String>,
}

impl Recorder {
    fn groups(&mut self, p: &Params) -> Vec<Vec<u16>> {
        let groups: Vec<Vec<u16>> = p.iter().map(|x| x.to_vec()).collect();
        let total: usize = groups.iter().map(|g| g.len()).sum();
        if p.len() != total {
            self.api_errors
                .push(format!("Params::len()={} but iter yields {} values", p.len(), total));
        }
        if p.is_empty() != (total == 0) {
            self.api_errors.push("Params::is_empty() inconsistent".into());
        }
        if groups.iter().any(|g| g.is_empty()) {
            self.api_errors.push("Params::iter() yielded an empty group".into());
        }
        let via_into: Vec<Vec<u16>> = (&*p).into_iter().map(|x| x.to_vec()).collect();
        if via_into != groups {
            self.api_errors.push("IntoIterator for &Params differs from iter()".into());
        }
        let dbg = format!("{:?}", p);
        let want = format!(
            "[{}]",
            groups
                .iter()
                .map(|g| g.iter().map(|v| v.to_string()).collect::<Vec<_>>().join(":"))
                .collect::<Vec<_>>()
                .join(";")
        );
        if dbg != want {
            self.api_errors
                .push(format!("Params Debug is {dbg:?}, iter() gives {want:?}"));
        }
        groups
    }
}

impl Perform for Recorder {
    fn print(&mut self, c: char) {
        self.ev.push(Ev::Print(c));
    }
    fn execute(&mut self, b: u8) {
        self.ev.push(Ev::Exec(b));
    }
    fn hook(&mut self, p: &Params, i: &[u8], ig: bool, a: u8) {
        let groups = self.groups(p);
        self.ev.push(Ev::Hook {
            groups,
            inter: i.to_vec(),
            ignore: ig,
            fin: a,
        });
    }
    fn put(&mut self, b: u8) {
        self.ev.push(Ev::Put(b));
    }
    fn unhook(&mut self) {
        self.ev.push(Ev::Unhook);
    }
    fn osc_dispatch(&mut self, p: &[&[u8]], bell: bool) {
        self.ev.push(Ev::Osc {
            fields: p.iter().map(|x| x.to_vec()).collect(),
            bell,
        });
    }
    fn csi_dispatch(&mut self, p: &Params, i: &[u8], ig: bool, a: u8) {
        let groups = self.groups(p);
        self.ev.push(Ev::Csi {
            groups,
            inter: i.to_vec(),
            ignore: ig,
            fin: a,
        });
    }
    fn esc_dispatch(&mut self, i: &[u8], ig: bool, b: u8) {
        self.ev.push(Ev::Esc {
            inter: i.to_vec(),
            ignore: ig,
            fin: b,
        });
    }
}

pub type RealParser = Parser<anstyle_parse::DefaultCharAccumulator>;

pub fn new_parser() -> RealParser {
    RealParser::new()
}

pub fn parse_events(bytes: &[u8]) -> Recorder {
    let mut r = Recorder::default();
    let mut p = new_parser();
    for b in bytes {
        p.advance(&mut r, *b);
    }
    r
}

/// first difference between two event lists, for messages
pub fn diff_events(real: &[Ev], model: &[Ev]) -> Option<String> {
    if real == model {
        return None;
    }
    let n = real.len().min(model.len());
    for i in 0..n {
        if real[i] != model[i] {
            return Some(format!(
                "event #{i}: parser reported {:?}, reference expects {:?}",
                real[i], model[i]
            ));
        }
    }
    if real.len() > n {
        Some(format!("parser reported an extra event #{n}: {:?}", real[n]))
    } else {
        Some(format!("parser did not report event #{n}: {:?}", model[n]))
    }
}
