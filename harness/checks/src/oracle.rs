//! Oracles shared by the check binaries and the fuzz targets.
use crate::real::*;
use vcore::drive::chunks_from_cuts;
use vcore::rt::esc;
use vcore::sgr::{self, from_style, MStyle, UL_KINDS};
use vcore::vt::{self, Ev, St};

/// All oracles on one input. Returns whether the case is non-trivial.
pub fn strip(input: &[u8]) -> Result<bool, String> {
    let valid = vt::is_valid_utf8(input);
    let model = vt::visible(input);
    let nontrivial = !model.is_empty() && model.len() != input.len();

    // byte-API entry points
    let mut outs: Vec<(&str, Vec<u8>)> = vec![
        ("strip_bytes (pieces)", strip_bytes_pieces(input)?),
        ("strip_bytes().into_vec()", strip_bytes_vec(input)),
        ("StripBytes::strip_next", strip_bytes_incremental_one(input)?),
        ("StripStream<Vec<u8>>::write_all", strip_stream_write_all(input)?),
        ("AutoStream::never(Vec<u8>)::write_all", auto_never_write_all(input)?),
        ("strip_bytes: next() once, then into_vec()", strip_bytes_next_then_into_vec(input, 1)),
        ("strip_bytes: next() twice, then into_vec()", strip_bytes_next_then_into_vec(input, 2)),
    ];
    if valid {
        // SAFETY-free: validated above by R-UTF8, cross-checked by std here
        let s = std::str::from_utf8(input)
            .map_err(|_| "R-UTF8 accepted what std rejects (harness bug)".to_owned())?;
        outs.push(("strip_str (pieces)", strip_str_pieces(s)?));
        outs.push(("strip_str().to_string()", strip_str_to_string(s)));
        outs.push(("strip_str() Display", strip_str_display(s)));
        outs.push(("StripStr::strip_next", strip_str_incremental_one(s)?));
        outs.push(("strip_str: next() once, then to_string()", strip_str_next_then_display(s, 1)));
        outs.push(("strip_str: next() twice, then to_string()", strip_str_next_then_display(s, 2)));
        outs.push(("strip_str: next() three times, then to_string()", strip_str_next_then_display(s, 3)));
    }
    // O2: forbidden bytes
    for (name, out) in &outs {
        if let Some(b) = forbidden_byte(out) {
            return Err(format!(
                "{name} output contains control byte {:#04x}: input {} -> {}",
                b,
                esc(input),
                esc(out)
            ));
        }
    }
    // O1: exact, valid UTF-8 only
    if valid {
        for (name, out) in &outs {
            if *out != model {
                return Err(format!(
                    "{name}: input {} gave {} but the visible text is {}",
                    esc(input),
                    esc(out),
                    esc(&model)
                ));
            }
        }
    }
    // O3: agreement (for malformed input this is all that is asserted beyond O2)
    for (name, out) in &outs[1..] {
        if *out != outs[0].1 {
            return Err(format!(
                "{name} gave {} but {} gave {} for input {}",
                esc(out),
                outs[0].0,
                esc(&outs[0].1),
                esc(input)
            ));
        }
    }
    Ok(nontrivial)
}

pub fn check_events(bytes: &[u8]) -> Result<bool, String> {
    let r = parse_events(bytes);
    if let Some(e) = r.api_errors.first() {
        return Err(e.clone());
    }
    let m = vt::events(bytes);
    if let Some(d) = diff_events(&r.ev, &m) {
        return Err(d);
    }
    Ok(m.iter().any(Ev::is_dispatch))
}

/// D: events(prefix·x·rest) = events(prefix·x) ++ events_fresh(rest), and the
/// tail of events(prefix·x) is what abandoning requires.
pub fn check_cansub(prefix: &[u8], x: u8, rest: &[u8]) -> Result<bool, String> {
    let mut px = prefix.to_vec();
    px.push(x);
    let head = parse_events(&px);
    let mut whole = px.clone();
    whole.extend_from_slice(rest);
    let all = parse_events(&whole);
    let fresh = parse_events(rest);
    let mut want = head.ev.clone();
    want.extend(fresh.ev.iter().cloned());
    if let Some(d) = diff_events(&all.ev, &want) {
        return Err(format!(
            "after prefix + {:#04x} the rest is not parsed as by a fresh parser: {d}",
            x
        ));
    }
    // what the abandoning byte itself must produce, by the state the
    // reference machine is in after the prefix
    let before = parse_events(prefix);
    let tail = &head.ev[before.ev.len().min(head.ev.len())..];
    let st = vt::state_after(prefix);
    let ok = match st {
        St::Utf8 => tail == [Ev::Print('\u{fffd}')],
        St::DcsPassthrough => tail == [Ev::Unhook, Ev::Exec(x)],
        St::OscString => {
            tail.len() == 2
                && matches!(&tail[0], Ev::Osc { bell: false, .. })
                && tail[1] == Ev::Exec(x)
        }
        _ => tail == [Ev::Exec(x)],
    };
    if !ok {
        return Err(format!(
            "byte {:#04x} arriving in state {:?} produced {:?}",
            x, st, tail
        ));
    }
    if st != St::Utf8 && vt::state_after(&px) != St::Ground {
        return Err("reference machine not in ground after CAN/SUB".into());
    }
    Ok(st != St::Ground)
}

/// E: a parser cloned after `split` bytes continues identically and compares
/// equal to its original.
pub fn check_clone(bytes: &[u8], split: usize) -> Result<bool, String> {
    let split = split.min(bytes.len());
    let mut p = new_parser();
    let mut r = Recorder::default();
    for b in &bytes[..split] {
        p.advance(&mut r, *b);
    }
    let mut q = p.clone();
    if q != p {
        return Err("a cloned parser does not compare equal to its original".into());
    }
    let n0 = r.ev.len();
    let mut r2 = Recorder::default();
    for b in &bytes[split..] {
        p.advance(&mut r, *b);
        q.advance(&mut r2, *b);
    }
    if let Some(d) = diff_events(&r2.ev, &r.ev[n0..]) {
        return Err(format!("clone diverges after split at {split}: {d}"));
    }
    if q != p {
        return Err("clone and original differ after the same input".into());
    }
    Ok(r.ev.iter().any(Ev::is_dispatch))
}

pub struct OneShot {
    pub bytes: Vec<u8>,
    pub chars: StyledChars,
    pub valid: bool,
}

pub fn one_shot(input: &[u8]) -> OneShot {
    OneShot {
        bytes: strip_bytes_vec(input),
        chars: extract_chunked(&[input]),
        valid: vt::is_valid_utf8(input),
    }
}

/// The partition as given, and the same partition with an empty chunk in front,
/// between every two chunks and at the end (zero-length writes / empty
/// `strip_next` calls are legal and must change nothing).
pub fn check_partition(input: &[u8], one: &OneShot, chunks: &[&[u8]], str_ok: bool) -> Result<(), String> {
    check_partition_inner(input, one, chunks, str_ok)?;
    let mut with_empties: Vec<&[u8]> = Vec::with_capacity(chunks.len() * 2 + 1);
    with_empties.push(&[]);
    for c in chunks {
        with_empties.push(c);
        with_empties.push(&[]);
    }
    check_partition_inner(input, one, &with_empties, str_ok).map_err(|e| format!("{e} (with empty chunks interleaved)"))
}

fn check_partition_inner(input: &[u8], one: &OneShot, chunks: &[&[u8]], str_ok: bool) -> Result<(), String> {
    let show = || {
        chunks
            .iter()
            .map(|c| esc(c))
            .collect::<Vec<_>>()
            .join(" | ")
    };
    let a = strip_bytes_chunked(chunks)?;
    if a != one.bytes {
        return Err(format!(
            "StripBytes over chunks [{}] gave {} but one-shot gives {}",
            show(),
            esc(&a),
            esc(&one.bytes)
        ));
    }
    let a = stripped_bytes_extend_chunked(chunks)?;
    if a != one.bytes {
        return Err(format!(
            "strip_bytes + StrippedBytes::extend over chunks [{}] gave {} but one-shot gives {}",
            show(),
            esc(&a),
            esc(&one.bytes)
        ));
    }
    let a = strip_stream_write_all_chunked(chunks)?;
    if a != one.bytes {
        return Err(format!(
            "StripStream::write_all over chunks [{}] gave {} but one-shot gives {}",
            show(),
            esc(&a),
            esc(&one.bytes)
        ));
    }
    let a = strip_stream_write_chunked(chunks)?;
    if a != one.bytes {
        return Err(format!(
            "StripStream::write over chunks [{}] gave {} but one-shot gives {}",
            show(),
            esc(&a),
            esc(&one.bytes)
        ));
    }
    let c = extract_chunked(chunks);
    if c != one.chars {
        let i = c
            .iter()
            .zip(one.chars.iter())
            .position(|(x, y)| x != y)
            .unwrap_or(c.len().min(one.chars.len()));
        return Err(format!(
            "WinconBytes over chunks [{}] differs from one-shot at character #{i}: chunked {:?}, one-shot {:?}",
            show(),
            c.get(i),
            one.chars.get(i)
        ));
    }
    if one.valid && str_ok {
        let strs: Vec<&str> = chunks
            .iter()
            .map(|c| std::str::from_utf8(c).expect("cut at character boundaries"))
            .collect();
        let whole = std::str::from_utf8(input).unwrap();
        let one_s = strip_str_to_string(whole);
        let a = strip_str_chunked(&strs)?;
        if a != one_s {
            return Err(format!(
                "StripStr over chunks [{}] gave {} but strip_str gives {}",
                show(),
                esc(&a),
                esc(&one_s)
            ));
        }
    }
    Ok(())
}

pub fn check_cuts(input: &[u8], cuts: &[usize]) -> Result<bool, String> {
    let one = one_shot(input);
    let chunks = chunks_from_cuts(input, cuts);
    let str_ok = cuts
        .iter()
        .all(|&c| c >= input.len() || !(0x80..=0xbf).contains(&input[c]));
    check_partition(input, &one, &chunks, str_ok)?;
    let mut m = vt::Machine::new();
    let mut nt = false;
    for (i, &b) in input.iter().enumerate() {
        if i > 0 && m.st != St::Ground && cuts.binary_search(&i).is_ok() {
            nt = true;
        }
        m.feed(b);
    }
    Ok(nt)
}

// (both sides in canonical form: palette colour k and 256-colour index k < 16 are the same
// terminal colour, whichever of the two spellings the extractor keeps)
pub fn model_chars(bytes: &[u8]) -> Vec<(MStyle, char)> {
    sgr::styled_chars(bytes, vt::is_ws_control).into_iter().map(|(s, c)| (s.canon(), c)).collect()
}

pub fn real_chars(chunks: &[&[u8]]) -> Vec<(MStyle, char)> {
    extract_chunked(chunks)
        .into_iter()
        .map(|(s, c)| (from_style(s).canon(), c))
        .collect()
}

pub fn first_diff(real: &[(MStyle, char)], model: &[(MStyle, char)]) -> Option<String> {
    if real == model {
        return None;
    }
    let n = real.len().min(model.len());
    for i in 0..n {
        if real[i] != model[i] {
            return Some(format!(
                "character #{i}: extractor gives {:?} with [{}], a conforming terminal shows {:?} with [{}]",
                real[i].1,
                real[i].0.describe(),
                model[i].1,
                model[i].0.describe()
            ));
        }
    }
    Some(format!(
        "extractor yields {} characters, reference {}",
        real.len(),
        model.len()
    ))
}

/// oracle 1 on a byte stream (fed in `cuts` chunks)
pub fn check_stream(bytes: &[u8], cuts: &[usize]) -> Result<(), String> {
    let chunks = chunks_from_cuts(bytes, cuts);
    let real = real_chars(&chunks);
    let model = model_chars(bytes);
    match first_diff(&real, &model) {
        None => Ok(()),
        Some(d) => Err(format!("input {} (cuts {:?}): {d}", esc(bytes), cuts)),
    }
}

/// does the reference parser see a kind replacement in this stream?
pub fn has_kind_replacement(bytes: &[u8]) -> bool {
    let mut st = MStyle::default();
    for e in vt::events(bytes) {
        if let Some(groups) = sgr::sgr_groups(&e) {
            // apply group by group (';'-form extended colours span several)
            let mut i = 0;
            while i < groups.len() {
                let span = if groups[i].len() == 1 && matches!(groups[i][0], 38 | 48 | 58) {
                    match groups.get(i + 1).map(|g| g.as_slice()) {
                        Some([5]) => 3,
                        Some([2]) => 5,
                        _ => 1,
                    }
                } else {
                    1
                };
                let end = (i + span).min(groups.len());
                let before = st.effects & UL_KINDS;
                st = sgr::apply_sgr(st, &groups[i..end]);
                let after = st.effects & UL_KINDS;
                if before != 0 && after != 0 && before != after {
                    return true;
                }
                i = end;
            }
        }
    }
    false
}


// ------------------------------------------------------------ robustness (C04)

/// Header layout of a robustness input: byte 0 = chunk size selector,
/// bytes 1..49 = palette (16 x RGB), bytes 49..52 = a colour, rest = payload.
pub const ROBUST_HEADER: usize = 52;

fn check_string(s: &str, what: &str) -> Result<(), String> {
    if !vcore::vt::is_valid_utf8(s.as_bytes()) {
        return Err(format!("{what} returned a String that is not valid UTF-8"));
    }
    Ok(())
}

/// Feed one decoded input to every public entry point that consumes
/// untrusted data. Returns the number of entry points reached. Any panic is
/// the caller's to catch; invalid results are reported as Err.
pub fn robust(data: &[u8]) -> Result<u32, String> {
    use std::io::Write as _;
    let mut reached = 0u32;
    let (head, payload) = if data.len() >= ROBUST_HEADER { data.split_at(ROBUST_HEADER) } else { (&[][..], data) };
    let k = 1 + head.first().copied().unwrap_or(3) as usize % 7;
    let mut raw = [anstyle::RgbColor(0, 0, 0); 16];
    if head.len() >= 49 {
        for (i, e) in raw.iter_mut().enumerate() {
            *e = anstyle::RgbColor(head[1 + 3 * i], head[2 + 3 * i], head[3 + 3 * i]);
        }
    } else {
        raw = anstyle_lossy::palette::VGA.0;
    }
    let palette = anstyle_lossy::palette::Palette(raw);
    let col = if head.len() >= 52 { (head[49], head[50], head[51]) } else { (1, 2, 3) };

    // parser
    let r = parse_events(payload);
    if let Some(e) = r.api_errors.first() {
        return Err(e.clone());
    }
    reached += 1;

    // byte strippers, one-shot and chunked
    let a = strip_bytes_pieces(payload)?;
    if let Some(b) = forbidden_byte(&a) {
        return Err(format!("strip_bytes output contains control byte {b:#04x}"));
    }
    let chunks: Vec<&[u8]> = payload.chunks(k).collect();
    let b = strip_bytes_chunked(&chunks)?;
    if let Some(x) = forbidden_byte(&b) {
        return Err(format!("StripBytes output contains control byte {x:#04x}"));
    }
    let mut s = anstream::StripStream::new(Vec::new());
    for c in &chunks {
        let n = s.write(c).map_err(|e| format!("StripStream::write: {e}"))?;
        if n > c.len() {
            return Err(format!("StripStream::write returned {n} for {} bytes", c.len()));
        }
        s.write_all(&c[n..]).map_err(|e| format!("StripStream::write_all: {e}"))?;
    }
    let _ = write!(s, "{}", String::from_utf8_lossy(payload));
    // degenerate calls: no buffers at all, only empty buffers, an empty write, an empty write_all
    for (what, r) in [
        ("write_vectored(&[])", s.write_vectored(&[])),
        ("write_vectored(&[&[], &[]])", s.write_vectored(&[std::io::IoSlice::new(&[]), std::io::IoSlice::new(&[])])),
        ("write(&[])", s.write(&[])),
    ] {
        match r {
            Ok(0) => {}
            other => return Err(format!("StripStream::{what} returned {other:?}, expected Ok(0)")),
        }
    }
    s.write_all(&[]).map_err(|e| format!("StripStream::write_all(&[]): {e}"))?;
    {
        let mut a = anstream::AutoStream::never(Vec::new());
        let mut b = anstream::AutoStream::always_ansi(Vec::new());
        for w in [&mut a as &mut dyn std::io::Write, &mut b as &mut dyn std::io::Write] {
            match w.write_vectored(&[]) {
                Ok(0) => {}
                other => return Err(format!("AutoStream::write_vectored(&[]) returned {other:?}, expected Ok(0)")),
            }
        }
    }
    reached += 3;

    // styled-run extractor
    let runs = extract_runs(&chunks);
    for (_, t) in &runs {
        check_string(t, "WinconBytes")?;
    }
    reached += 1;

    // text APIs
    let lossy = String::from_utf8_lossy(payload);
    let text: &str = &lossy;
    let pieces = strip_str_pieces(text)?;
    if let Some(x) = forbidden_byte(&pieces) {
        return Err(format!("strip_str output contains control byte {x:#04x}"));
    }
    check_string(&anstream::adapter::strip_str(text).to_string(), "strip_str().to_string()")?;
    {
        // chunked at character boundaries
        let mut st = anstream::adapter::StripStr::new();
        let mut start = 0;
        let bounds: Vec<usize> = (0..=text.len()).filter(|i| text.is_char_boundary(*i)).collect();
        for w in bounds.chunks(k) {
            let end = *w.last().unwrap();
            if end > start {
                let piece = &text[start..end];
                let got: Vec<&str> = st.strip_next(piece).collect();
                for p in got {
                    locate(piece.as_bytes(), p.as_bytes())?;
                    if !vcore::vt::is_valid_utf8(p.as_bytes()) {
                        return Err("StripStr returned a &str that is not valid UTF-8".into());
                    }
                }
                start = end;
            }
        }
    }
    reached += 2;
    let term = anstyle_svg::Term::new()
        .palette(palette)
        .fg_color(anstyle::Color::Ansi256(anstyle::Ansi256Color(col.0)))
        .bg_color(anstyle::Color::Rgb(anstyle::RgbColor(col.0, col.1, col.2)))
        .background(col.2 % 2 == 0);
    check_string(&term.render_svg(text), "render_svg")?;
    reached += 1;
    let roff = anstyle_roff::to_roff(text);
    check_string(&roff.to_roff(), "to_roff().to_roff()")?;
    check_string(&roff.render(), "to_roff().render()")?;
    reached += 1;
    match anstyle_git::parse(text) {
        Ok(_) => {}
        Err(e) => check_string(&e.to_string(), "anstyle_git::Error Display")?,
    }
    let _ = anstyle_ls::parse(text);
    // style words hidden in longer inputs: also try each white-space separated word and ';' list
    for w in text.split_whitespace().take(8) {
        let _ = anstyle_git::parse(w);
        let _ = anstyle_ls::parse(w);
    }
    reached += 2;

    // lossy colour conversion with the decoded palette
    let rgb = anstyle::RgbColor(col.0, col.1, col.2);
    let a = anstyle_lossy::rgb_to_ansi(rgb, palette);
    let _ = palette.get(a);
    let _ = palette[a];
    let x = anstyle_lossy::rgb_to_xterm(rgb);
    if x.0 < 16 {
        return Err(format!("rgb_to_xterm returned palette index {}", x.0));
    }
    let _ = anstyle_lossy::xterm_to_rgb(anstyle::Ansi256Color(col.1), palette);
    let _ = anstyle_lossy::xterm_to_ansi(anstyle::Ansi256Color(col.2), palette);
    for c in [anstyle::Color::Rgb(rgb), anstyle::Color::Ansi256(anstyle::Ansi256Color(col.0)), anstyle::Color::Ansi(a)] {
        let _ = anstyle_lossy::color_to_rgb(c, palette);
        let _ = anstyle_lossy::color_to_xterm(c);
        let _ = anstyle_lossy::color_to_ansi(c, palette);
    }
    reached += 1;
    Ok(reached)
}

// ------------------------------------------------------------ fuzz entry points
// Each takes raw fuzzer bytes, decodes them into the structured case of the
// corresponding check and runs that check's oracle. Err = violation.

pub fn fuzz_strip(data: &[u8]) -> Result<(), String> {
    strip(data).map(|_| ())
}

pub fn fuzz_parser(data: &[u8]) -> Result<(), String> {
    check_events(data)?;
    if let Some((&sel, rest)) = data.split_first() {
        // prefix . CAN|SUB . rest, split point chosen by the first byte
        let split = if rest.is_empty() { 0 } else { sel as usize % (rest.len() + 1) };
        let x = if sel & 0x80 != 0 { 0x1a } else { 0x18 };
        check_cansub(&rest[..split], x, &rest[split..])?;
        check_clone(rest, split)?;
    }
    Ok(())
}

pub fn fuzz_chunk(data: &[u8]) -> Result<(), String> {
    let Some((&n, rest)) = data.split_first() else { return Ok(()) };
    let n = (n % 9) as usize;
    if rest.len() < n {
        return Ok(());
    }
    let (fr, input) = rest.split_at(n);
    if input.len() < 2 {
        return check_cuts(input, &[]).map(|_| ());
    }
    let mut cuts: Vec<usize> = fr.iter().map(|f| 1 + (*f as usize * (input.len() - 1)) / 256).collect();
    cuts.sort();
    cuts.dedup();
    check_cuts(input, &cuts).map(|_| ())
}

/// bytes -> list of text / SGR / other items of the C07 domain
pub fn decode_sgr_items(data: &[u8]) -> Vec<vcore::gen::Item> {
    use vcore::gen::{Group, Item};
    let mut it = data.iter().copied();
    let mut items = vec![];
    let singles = vcore::gen::SGR_SINGLES;
    let unknown = vcore::gen::SGR_UNKNOWN;
    while let Some(op) = it.next() {
        match op % 8 {
            0 | 1 => {
                let n = 1 + it.next().unwrap_or(0) as usize % 6;
                let pool = ["a", "Z", "0", ";", "m", "[", " ", "é", "漢", "😀", "\u{301}", "\t", "\n", "\r"];
                let s: String = (0..n).map(|_| pool[it.next().unwrap_or(0) as usize % pool.len()]).collect();
                items.push(Item::Raw { class: "text", bytes: s.into_bytes() });
            }
            2 => {
                let others: [&[u8]; 8] = [b"\x1b[2J", b"\x1b[>4;2m", b"\x1b[?25h", b"\x1b[1 m", b"\x1b]0;title\x07", b"\x1bPq#0\x1b\\", b"\x1b(B", b"\x1b_x\x1b\\"];
                items.push(Item::Raw { class: "other-seq", bytes: others[it.next().unwrap_or(0) as usize % others.len()].to_vec() });
            }
            _ => {
                let ng = 1 + it.next().unwrap_or(0) as usize % 5;
                let mut groups = vec![];
                let mut values = 0;
                for _ in 0..ng {
                    let k = it.next().unwrap_or(0);
                    let a = it.next().unwrap_or(0);
                    let target = [38u16, 48, 58][(k / 8) as usize % 3];
                    let g = match k % 8 {
                        0 | 1 | 2 => Group::Single { code: singles[a as usize % singles.len()], zeros: (k / 64) % 3 },
                        3 => Group::Empty,
                        4 => Group::Unknown(unknown[a as usize % unknown.len()]),
                        5 => Group::Ul(a as u16 % 6),
                        6 if k & 0x80 != 0 => Group::RgbCs { target, cs: (k & 0x40 != 0).then_some((a % 3) as u16), r: a as u16, g: it.next().unwrap_or(0) as u16, b: it.next().unwrap_or(0) as u16 },
                        6 => Group::Idx { target, colon: k & 0x40 != 0, n: a as u16 },
                        _ => Group::Rgb { target, colon: k & 0x40 != 0, r: a as u16, g: it.next().unwrap_or(0) as u16, b: it.next().unwrap_or(0) as u16 },
                    };
                    if values + g.values() > 32 {
                        break;
                    }
                    values += g.values();
                    groups.push(g);
                }
                if !groups.is_empty() {
                    items.push(Item::Sgr(groups));
                }
            }
        }
    }
    items
}

pub fn fuzz_sgr(data: &[u8]) -> Result<(), String> {
    let Some((&sel, rest)) = data.split_first() else { return Ok(()) };
    let items = decode_sgr_items(rest);
    let bytes = vcore::gen::render(&items);
    let cuts: Vec<usize> = match sel % 4 {
        0 => vec![],
        1 => (1..bytes.len()).collect(),
        2 => vcore::gen::interior_cuts(&bytes),
        _ => (1..bytes.len()).filter(|i| (i * 7 + sel as usize) % 5 == 0).collect(),
    };
    check_stream(&bytes, &cuts)
}

pub fn fuzz_robust(data: &[u8]) -> Result<(), String> {
    robust(data).map(|_| ())
}
