//! C05 — rendered styles are pure SGR and round-trip through SGR interpretation.
use proptest::prelude::*;
use serde_json::{json, Value};
use std::fmt::Display;
use vcore::drive::{prop_par, Verdict};
use vcore::rt::{self, digest_str, esc, Acc, Args, Report};
use vcore::sgr::{self, from_style, to_style, MColor, MStyle, UL_KINDS};
use vcore::vt::{self, Ev};

const RULE: &str = "Styles: exhaustively all 4096 effect sets, alone and combined with each of the 16 palette + 256 indexed colours in each slot; all 16 palette + 256 indexed colours and all 256 values of each RGB component in each of the three colour slots; seeded random full styles; the longest renderings (all effects with three-digit RGB colours in every slot). For each style: (1) rendered text strips to nothing and the reference parser sees only plain CSI..m events, (2) the reference SGR interpreter from the default state reproduces fg/bg/underline colour/effects (palette underline colour k comes back as index k; when several underline kinds are set any one of them is accepted), (3) reset form empty iff plain, otherwise it restores the default state, (4) Display == Style::render() == write_to bytes (into a Vec and into writers that accept only 1, 2, 5 or 7 bytes per call), write_reset_to == render_reset, (5) every format spec of the grid (width x fill/align x precision x alternate) gives the same bytes as the plain spec. Non-trivial = style has at least one effect or colour (distinct by style value; for the grid: distinct (style, spec) with a width or precision that would alter a plain &str).";

fn arb_color() -> impl Strategy<Value = MColor> {
    prop_oneof![
        (0u8..16).prop_map(MColor::Ansi),
        any::<u8>().prop_map(MColor::Idx),
        (any::<u8>(), any::<u8>(), any::<u8>()).prop_map(|(r, g, b)| MColor::Rgb(r, g, b)),
    ]
}

fn arb_style() -> impl Strategy<Value = MStyle> {
    (
        proptest::option::weighted(0.7, arb_color()),
        proptest::option::weighted(0.7, arb_color()),
        proptest::option::weighted(0.5, arb_color()),
        prop_oneof![2 => 0u16..4096, 1 => (0u32..12).prop_map(|i| 1u16 << i), 1 => Just(0u16)],
    )
        .prop_map(|(fg, bg, ul, effects)| MStyle { fg, bg, ul, effects })
}

fn only_sgr(bytes: &[u8], what: &str) -> Result<(), String> {
    let s = std::str::from_utf8(bytes).map_err(|_| format!("{what}: not UTF-8"))?;
    let stripped = anstream::adapter::strip_str(s).to_string();
    if !stripped.is_empty() {
        return Err(format!(
            "{what}: {} leaves {:?} after stripping",
            esc(bytes),
            stripped
        ));
    }
    for e in vt::events(bytes) {
        if sgr::sgr_groups(&e).is_none() {
            return Err(format!(
                "{what}: {} contains something that is not an SGR sequence: {:?}",
                esc(bytes),
                e
            ));
        }
    }
    if vt::state_after(bytes) != vt::St::Ground {
        return Err(format!("{what}: {} ends inside a sequence", esc(bytes)));
    }
    Ok(())
}

fn expect_roundtrip(m: MStyle, got: MStyle, rendered: &[u8]) -> Result<(), String> {
    let mut want = m;
    // a palette underline colour has no SGR code of its own: 58;5;k
    if let Some(MColor::Ansi(k)) = want.ul {
        want.ul = Some(MColor::Idx(k));
    }
    let kinds = m.effects & UL_KINDS;
    let got_kinds = got.effects & UL_KINDS;
    let kinds_ok = if kinds == 0 {
        got_kinds == 0
    } else {
        got_kinds.count_ones() == 1 && kinds & got_kinds != 0
    };
    let rest_ok = (want.effects & !UL_KINDS) == (got.effects & !UL_KINDS);
    if want.fg != got.fg || want.bg != got.bg || want.ul != got.ul || !kinds_ok || !rest_ok {
        return Err(format!(
            "style [{}] renders {} which a terminal interprets as [{}]",
            m.describe(),
            esc(rendered),
            got.describe()
        ));
    }
    Ok(())
}

fn write_bytes(f: impl FnOnce(&mut dyn std::io::Write) -> std::io::Result<()>) -> Result<Vec<u8>, String> {
    let mut v = Vec::new();
    f(&mut v).map_err(|e| format!("write failed: {e}"))?;
    Ok(v)
}

/// a legal `io::Write` that accepts at most `k` bytes per call
struct Dribble(Vec<u8>, usize);
impl std::io::Write for Dribble {
    fn write(&mut self, buf: &[u8]) -> std::io::Result<usize> {
        let n = buf.len().min(self.1);
        self.0.extend_from_slice(&buf[..n]);
        Ok(n)
    }
    fn flush(&mut self) -> std::io::Result<()> {
        Ok(())
    }
}

fn write_bytes_dribble(k: usize, f: impl FnOnce(&mut dyn std::io::Write) -> std::io::Result<()>) -> Result<Vec<u8>, String> {
    let mut d = Dribble(Vec::new(), k);
    f(&mut d).map_err(|e| format!("write failed on a writer taking {k} byte(s) per call: {e}"))?;
    Ok(d.0)
}

/// the core of oracles 1, 2 and 4 (pure SGR, round trip, Display == write_to), cheap enough for
/// large products
fn check_style_core(m: MStyle) -> Result<(), String> {
    let style = to_style(m);
    let disp = format!("{style}").into_bytes();
    only_sgr(&disp, "Display")?;
    expect_roundtrip(m, sgr::final_style(&disp), &disp)?;
    let w = write_bytes(|w| style.write_to(w))?;
    if w != disp {
        return Err(format!("write_to gives {} but Display gives {}", esc(&w), esc(&disp)));
    }
    Ok(())
}

/// oracles 1-4 on one style
fn check_style(m: MStyle) -> Result<(), String> {
    let style = to_style(m);
    // (whether a getter echoes the very value that was set is C13's question; here the harness only
    // has to know that it is rendering the style it means to - the same colours in canonical form)
    if from_style(style).canon() != m.canon() {
        return Err(format!("getters do not return what the setters stored for [{}]", m.describe()));
    }
    let disp = format!("{style}").into_bytes();
    only_sgr(&disp, "Display")?;
    expect_roundtrip(m, sgr::final_style(&disp), &disp)?;
    if m.is_plain() != disp.is_empty() && m.is_plain() {
        return Err(format!("plain style renders {}", esc(&disp)));
    }
    // (4) all paths give the same bytes
    let r = format!("{}", style.render()).into_bytes();
    if r != disp {
        return Err(format!("Style::render() gives {} but Display gives {}", esc(&r), esc(&disp)));
    }
    let w = write_bytes(|w| style.write_to(w))?;
    if w != disp {
        return Err(format!("write_to gives {} but Display gives {}", esc(&w), esc(&disp)));
    }
    for k in [1usize, 2, 5, 7] {
        let w = write_bytes_dribble(k, |w| style.write_to(w))?;
        if w != disp {
            return Err(format!("write_to into a writer accepting {k} byte(s) per call delivers {} but Display gives {}", esc(&w), esc(&disp)));
        }
        let wr = write_bytes_dribble(k, |w| style.write_reset_to(w))?;
        if wr != format!("{style:#}").into_bytes() {
            return Err(format!("write_reset_to into a writer accepting {k} byte(s) per call delivers {}", esc(&wr)));
        }
    }
    // (3) reset
    let alt = format!("{style:#}").into_bytes();
    let rr = format!("{}", style.render_reset()).into_bytes();
    let wr = write_bytes(|w| style.write_reset_to(w))?;
    if alt != rr || rr != wr {
        return Err(format!(
            "reset forms differ: {{:#}} {} render_reset {} write_reset_to {}",
            esc(&alt),
            esc(&rr),
            esc(&wr)
        ));
    }
    if m.is_plain() != alt.is_empty() {
        return Err(format!(
            "reset form of [{}] is {} (must be empty exactly when the style is plain)",
            m.describe(),
            esc(&alt)
        ));
    }
    if style.is_plain() != m.is_plain() {
        return Err("is_plain() disagrees with the field values".into());
    }
    if !alt.is_empty() {
        only_sgr(&alt, "reset form")?;
        let mut both = disp.clone();
        both.extend_from_slice(&alt);
        let after = sgr::final_style(&both);
        if !after.is_plain() {
            return Err(format!(
                "after the reset form the terminal is left with [{}]",
                after.describe()
            ));
        }
    }
    Ok(())
}

/// component renderers: Effects::render and the colour render_fg/bg family
fn check_components(m: MStyle) -> Result<(), String> {
    let e = sgr::to_effects(m.effects);
    let er = format!("{}", e.render()).into_bytes();
    let only_e = format!("{}", anstyle::Style::new().effects(e)).into_bytes();
    if er != only_e {
        return Err(format!("Effects::render {} differs from a style with only these effects {}", esc(&er), esc(&only_e)));
    }
    for (slot, col) in [("fg", m.fg), ("bg", m.bg)] {
        let Some(c) = col else { continue };
        let color = sgr::to_color(c);
        let a = if slot == "fg" { format!("{}", color.render_fg()) } else { format!("{}", color.render_bg()) };
        let b = match (color, slot) {
            (anstyle::Color::Ansi(x), "fg") => format!("{}", x.render_fg()),
            (anstyle::Color::Ansi(x), _) => format!("{}", x.render_bg()),
            (anstyle::Color::Ansi256(x), "fg") => format!("{}", x.render_fg()),
            (anstyle::Color::Ansi256(x), _) => format!("{}", x.render_bg()),
            (anstyle::Color::Rgb(x), "fg") => format!("{}", x.render_fg()),
            (anstyle::Color::Rgb(x), _) => format!("{}", x.render_bg()),
        };
        if a != b {
            return Err(format!("Color::render_{slot} {:?} differs from the inner type's {:?}", a, b));
        }
        only_sgr(a.as_bytes(), "colour render")?;
        let got = sgr::final_style(a.as_bytes());
        let want = if slot == "fg" { MStyle { fg: Some(c), ..Default::default() } } else { MStyle { bg: Some(c), ..Default::default() } };
        if got != want {
            return Err(format!("render_{slot} of {:?} gives {} = [{}]", c, esc(a.as_bytes()), got.describe()));
        }
        // `on` / `on_default` constructors
        if slot == "fg" && from_style(color.on_default()) != (MStyle { fg: Some(c), ..Default::default() }) {
            return Err("Color::on_default does not set exactly the foreground".into());
        }
    }
    if let (Some(f), Some(b)) = (m.fg, m.bg) {
        let st = sgr::to_color(f).on(sgr::to_color(b));
        if from_style(st) != (MStyle { fg: Some(f), bg: Some(b), ..Default::default() }) {
            return Err("Color::on does not set exactly fg and bg".into());
        }
    }
    Ok(())
}

const WS: [usize; 4] = [0, 1, 7, 40];
const PS: [usize; 4] = [0, 1, 3, 60];

macro_rules! grid_none { ($x:expr, $out:ident, $($f:literal),*) => { $( $out.push(($f.to_string(), format!($f, $x))); )* } }
macro_rules! grid_w { ($x:expr, $out:ident, $($f:literal),*) => { $( for &w in &WS { $out.push((format!("{} w={}", $f, w), format!($f, $x, w = w))); } )* } }
macro_rules! grid_p { ($x:expr, $out:ident, $($f:literal),*) => { $( for &p in &PS { $out.push((format!("{} p={}", $f, p), format!($f, $x, p = p))); } )* } }
macro_rules! grid_wp { ($x:expr, $out:ident, $($f:literal),*) => { $( for &w in &WS { for &p in &PS { $out.push((format!("{} w={} p={}", $f, w, p), format!($f, $x, w = w, p = p))); } } )* } }

/// every spec of the grid without `#`
fn grid_plain<D: Display>(x: &D) -> Vec<(String, String)> {
    let mut out = Vec::new();
    grid_none!(x, out, "{:<}", "{:^}", "{:>}", "{:*<}", "{:0}", "{:7}", "{:<40}", "{:.0}", "{:.3}", "{:*^9.2}");
    grid_w!(x, out, "{:w$}", "{:<w$}", "{:^w$}", "{:>w$}", "{:*<w$}", "{:0w$}", "{:#>w$}");
    grid_p!(x, out, "{:.p$}", "{:<.p$}", "{:^.p$}", "{:>.p$}", "{:*<.p$}", "{:0.p$}");
    grid_wp!(x, out, "{:w$.p$}", "{:<w$.p$}", "{:^w$.p$}", "{:>w$.p$}", "{:*<w$.p$}", "{:0w$.p$}");
    out
}

/// every spec of the grid with `#`
fn grid_alt<D: Display>(x: &D) -> Vec<(String, String)> {
    let mut out = Vec::new();
    grid_none!(x, out, "{:#}", "{:<#}", "{:^#}", "{:>#}", "{:*<#}", "{:#0}", "{:#7}", "{:<#40}", "{:#.0}", "{:#.3}", "{:*^#9.2}");
    grid_w!(x, out, "{:#w$}", "{:<#w$}", "{:^#w$}", "{:>#w$}", "{:*<#w$}", "{:#0w$}");
    grid_p!(x, out, "{:#.p$}", "{:<#.p$}", "{:^#.p$}", "{:>#.p$}", "{:*<#.p$}", "{:#0.p$}");
    grid_wp!(x, out, "{:#w$.p$}", "{:<#w$.p$}", "{:^#w$.p$}", "{:>#w$.p$}", "{:*<#w$.p$}", "{:#0w$.p$}");
    out
}

fn same_as<D: Display>(what: &str, x: &D, plain: &str, acc: &mut Acc, key: u64) -> Result<(), String> {
    // `{:#}` selects the reset form of a `Style` only; on every other renderable value (also on what
    // `Style::render()` returns) the alternate flag is one more flag that must change nothing
    let alt = if what == "Style" { vec![] } else { grid_alt(x) };
    for (spec, got) in grid_plain(x).into_iter().chain(alt) {
        acc.evals += 1;
        if got != plain {
            return Err(format!(
                "{what} formatted with {spec} gives {:?}, with {{}} it gives {:?}",
                got, plain
            ));
        }
        if !plain.is_empty() {
            acc.nontrivial(key ^ digest_str(&spec));
        }
    }
    Ok(())
}

/// oracle 5 on one style
fn check_grid(m: MStyle, acc: &mut Acc) -> Result<(), String> {
    let style = to_style(m);
    let key = digest_str(&m.describe());
    let plain = format!("{style}");
    same_as("Style", &style, &plain, acc, key)?;
    same_as("Style::render()", &style.render(), &plain, acc, key ^ 1)?;
    let reset = format!("{style:#}");
    for (spec, got) in grid_alt(&style) {
        acc.evals += 1;
        if got != reset {
            return Err(format!(
                "Style [{}] formatted with {spec} gives {:?}, with {{:#}} it gives {:?}",
                m.describe(),
                got,
                reset
            ));
        }
        if !reset.is_empty() {
            acc.nontrivial(key ^ 2 ^ digest_str(&spec));
        }
    }
    same_as("Style::render_reset()", &style.render_reset(), &reset, acc, key ^ 3)?;
    let e = style.get_effects().render();
    same_as("Effects::render()", &e, &format!("{e}"), acc, key ^ 4)?;
    if let Some(c) = style.get_fg_color() {
        same_as("Color::render_fg()", &c.render_fg(), &format!("{}", c.render_fg()), acc, key ^ 5)?;
        same_as("Color::render_bg()", &c.render_bg(), &format!("{}", c.render_bg()), acc, key ^ 6)?;
        match c {
            anstyle::Color::Ansi(x) => {
                same_as("AnsiColor::render_fg()", &x.render_fg(), &format!("{}", x.render_fg()), acc, key ^ 7)?;
                same_as("AnsiColor::render_bg()", &x.render_bg(), &format!("{}", x.render_bg()), acc, key ^ 8)?;
            }
            anstyle::Color::Ansi256(x) => {
                same_as("Ansi256Color::render_fg()", &x.render_fg(), &format!("{}", x.render_fg()), acc, key ^ 7)?;
                same_as("Ansi256Color::render_bg()", &x.render_bg(), &format!("{}", x.render_bg()), acc, key ^ 8)?;
            }
            anstyle::Color::Rgb(x) => {
                same_as("RgbColor::render_fg()", &x.render_fg(), &format!("{}", x.render_fg()), acc, key ^ 7)?;
                same_as("RgbColor::render_bg()", &x.render_bg(), &format!("{}", x.render_bg()), acc, key ^ 8)?;
            }
        }
    }
    // the Reset value: whatever its spelling, pure SGR that restores the default state from any state
    let reset_plain = format!("{}", anstyle::Reset);
    only_sgr(reset_plain.as_bytes(), "Reset")?;
    let mut both = b"\x1b[1;3;4;7;9;31;42;58;5;3m".to_vec();
    both.extend_from_slice(reset_plain.as_bytes());
    if reset_plain.is_empty() || !sgr::final_style(&both).is_plain() {
        return Err(format!("anstyle::Reset renders {:?}, which does not restore the default state", reset_plain));
    }
    same_as("Reset", &anstyle::Reset, &reset_plain, acc, key ^ 9)?;
    same_as("Reset::render()", &anstyle::Reset.render(), &reset_plain, acc, key ^ 10)?;
    Ok(())
}

fn style_json(m: &MStyle) -> Value {
    serde_json::to_value(m).unwrap()
}

fn check_all(m: MStyle) -> Result<(), String> {
    check_style(m)?;
    check_components(m)?;
    check_grid(m, &mut Acc::new())
}

fn run(args: &Args, rep: &mut Report) {
    let tier = args.tier;
    // exhaustive effect sets
    let n = rt::workers();
    let accs = rt::par(n, |w| {
        let mut acc = Acc::new();
        for bits in (0u16..4096).filter(|b| *b as usize % n == w) {
            let m = MStyle { effects: bits, ..Default::default() };
            acc.eval();
            if bits != 0 {
                acc.nontrivial_distinct();
            }
            if let Err(e) = rt::guarded(|| check_style(m).and_then(|_| check_components(m))) {
                acc.fail("all-effect-sets", style_json(&m), e);
                break;
            }
            acc.sample(|| json!({"style": m.describe(), "rendered": esc(format!("{}", to_style(m)).as_bytes())}));
        }
        acc
    });
    rep.add("all-effect-sets", true, "all 4096 effect sets", accs);

    // exhaustive colours per slot
    let accs = rt::par(3, |slot| {
        let mut acc = Acc::new();
        let mut colors: Vec<MColor> = (0..16).map(MColor::Ansi).collect();
        colors.extend((0..=255).map(MColor::Idx));
        for comp in 0..3 {
            for v in 0..=255u8 {
                for other in [0u8, 7, 255] {
                    let mut rgb = [other; 3];
                    rgb[comp] = v;
                    colors.push(MColor::Rgb(rgb[0], rgb[1], rgb[2]));
                }
            }
        }
        for c in colors {
            for extra in [0u16, sgr::BOLD | sgr::UNDERLINE] {
                let mut m = MStyle { effects: extra, ..Default::default() };
                match slot {
                    0 => m.fg = Some(c),
                    1 => m.bg = Some(c),
                    _ => m.ul = Some(c),
                }
                acc.eval();
                acc.nontrivial(digest_str(&m.describe()));
                if let Err(e) = rt::guarded(|| check_style(m).and_then(|_| check_components(m))) {
                    acc.fail("all-colours-per-slot", style_json(&m), e);
                    return acc;
                }
                acc.sample(|| json!({"style": m.describe(), "rendered": esc(format!("{}", to_style(m)).as_bytes())}));
            }
        }
        acc
    });
    // RGB values an indexed palette names exactly, in every slot
    let special: Vec<MColor> = vcore::palette::special_rgb().into_iter().map(|(r, g, b)| MColor::Rgb(r, g, b)).collect();
    let accs_special = rt::par(3, |slot| {
        let mut acc = Acc::new();
        for c in &special {
            for extra in [0u16, sgr::UNDERLINE] {
                let mut m = MStyle { effects: extra, ..Default::default() };
                match slot {
                    0 => m.fg = Some(*c),
                    1 => m.bg = Some(*c),
                    _ => m.ul = Some(*c),
                }
                acc.eval();
                acc.nontrivial(digest_str(&m.describe()));
                if let Err(e) = rt::guarded(|| check_style(m).and_then(|_| check_components(m))) {
                    acc.fail("palette-rgb-values", style_json(&m), e);
                    return acc;
                }
            }
        }
        acc.samples.push(json!({"rgb": [95, 135, 175], "slot": (["fg", "bg", "underline"][slot])}));
        acc
    });
    rep.add(
        "palette-rgb-values",
        true,
        "every RGB value that the xterm-256 (cube levels 0/95/135/175/215/255, 24 greys), VGA or Win10 palettes name exactly, as an RGB colour in fg, bg and underline slot, plain and underlined",
        accs_special,
    );
    rep.add(
        "all-colours-per-slot",
        true,
        "16 palette + 256 indexed colours + every value of each RGB component (others at 0/7/255) in fg, bg and underline slot, plain and with effects",
        accs,
    );

    // slot interactions: every assignment of a small colour set (incl. unset and equal
    // colours in different slots) to the three slots
    let reps: Vec<Option<MColor>> = vec![None, Some(MColor::Ansi(1)), Some(MColor::Ansi(9)), Some(MColor::Idx(1)), Some(MColor::Idx(141)), Some(MColor::Rgb(10, 20, 30)), Some(MColor::Rgb(0, 0, 0)), Some(MColor::Idx(0))];
    let accs = rt::par(reps.len(), |w| {
        let mut acc = Acc::new();
        for bg in &reps {
            for ul in &reps {
                for e in [0u16, sgr::BOLD, sgr::UNDERLINE | sgr::ITALIC, 4095] {
                    let m = MStyle { fg: reps[w], bg: *bg, ul: *ul, effects: e };
                    acc.eval();
                    if !m.is_plain() {
                        acc.nontrivial_distinct();
                    }
                    if let Err(err) = rt::guarded(|| check_style(m).and_then(|_| check_components(m))) {
                        acc.fail("slot-interactions", style_json(&m), err);
                        return acc;
                    }
                }
            }
        }
        acc.samples.push(json!({"fg": format!("{:?}", reps[w]), "bg/ul": "all 8 x 8", "effects": "4 sets"}));
        acc
    });
    rep.add("slot-interactions", true, "8 x 8 x 8 colour assignments to (fg, bg, underline) incl. unset and equal colours x 4 effect sets", accs);

    // the full product effect set x palette / indexed colour, per slot: an interaction between one
    // particular effect set and one particular colour cannot hide
    let accs = rt::par(rt::workers(), |w| {
        let n = rt::workers();
        let mut acc = Acc::new();
        for e in (0..4096u16).filter(|e| *e as usize % n == w) {
            for k in 0..272u16 {
                let c = if k < 16 { MColor::Ansi(k as u8) } else { MColor::Idx((k - 16) as u8) };
                for slot in 0..3 {
                    let mut m = MStyle { effects: e, ..Default::default() };
                    match slot {
                        0 => m.fg = Some(c),
                        1 => m.bg = Some(c),
                        _ => m.ul = Some(c),
                    }
                    acc.eval();
                    acc.nontrivial_distinct();
                    if let Err(err) = rt::guarded(|| check_style_core(m)) {
                        acc.fail("effects-x-colours", style_json(&m), err);
                        return acc;
                    }
                }
            }
        }
        acc.samples.push(json!({"effects": "DIMMED|BLINK", "fg": "Ansi256(25)"}));
        acc
    });
    rep.add("effects-x-colours", true, "all 4096 effect sets x (16 palette + 256 indexed colours) x 3 slots: round trip of Display and write_to", accs);

    // longest renderings: all twelve effects (or all but one) with the longest spelling of a colour in
    // every slot - the sizes at which a fixed-capacity buffer would overflow
    let longest: Vec<Option<MColor>> = vec![
        Some(MColor::Rgb(255, 255, 255)),
        Some(MColor::Rgb(100, 100, 100)),
        Some(MColor::Rgb(200, 99, 255)),
        Some(MColor::Idx(255)),
        Some(MColor::Ansi(15)),
        None,
    ];
    let effect_sets: Vec<u16> = std::iter::once(4095u16).chain((0..12).map(|i| 4095 & !(1 << i))).collect();
    let accs = rt::par(longest.len(), |w| {
        let mut acc = Acc::new();
        for bg in &longest {
            for ul in &longest {
                for e in &effect_sets {
                    let m = MStyle { fg: longest[w], bg: *bg, ul: *ul, effects: *e };
                    acc.eval();
                    acc.nontrivial_distinct();
                    if let Err(err) = rt::guarded(|| check_style(m)) {
                        acc.fail("longest-styles", style_json(&m), err);
                        return acc;
                    }
                }
            }
        }
        acc.samples.push(json!({"fg": format!("{:?}", longest[w]), "bg/ul": "all 6 x 6", "effects": "all 12, and all but each one", "longest_rendering_bytes": format!("{}", to_style(MStyle { fg: longest[0], bg: longest[0], ul: longest[0], effects: 4095 })).len()}));
        acc
    });
    rep.add("longest-styles", true, "6 x 6 x 6 colour assignments with the longest spellings (three-digit RGB components, index 255) x 13 effect sets (all twelve, all but one)", accs);

    // random full styles
    rep.add(
        "random-styles",
        false,
        "seeded random combinations of three optional colours and an effect set",
        prop_par(
            "random-styles",
            args.seed,
            tier.pick(60_000, 8_000_000),
            arb_style,
            |m, _| match check_style(*m).and_then(|_| check_components(*m)) {
                Ok(()) => Verdict::ok((!m.is_plain()).then(|| digest_str(&m.describe()))),
                Err(e) => Verdict { result: Err(e), nontrivial: None },
            },
            style_json,
        ),
    );

    // what a style renders depends on the style alone, not on what was rendered just before:
    // pairs of styles that differ by small amounts in two fields at once, written one after the
    // other through the io::Write path and through Display on one thread (a cache keyed by a
    // weak hash of the fields would answer the second from the first)
    {
        let accs = rt::par(rt::workers(), |w| {
            let mut acc = Acc::new();
            let n = rt::workers();
            let base = MStyle { fg: Some(MColor::Idx(100)), bg: Some(MColor::Idx(100)), ul: Some(MColor::Idx(100)), effects: 0b0100_0000_0101 };
            let shift = |c: Option<MColor>, d: i32| match c {
                Some(MColor::Idx(i)) => Some(MColor::Idx((i as i32 + d).clamp(0, 255) as u8)),
                c => c,
            };
            let mut idx = 0usize;
            for pair in 0..4u8 {
                for d1 in -40i32..=40 {
                    for d2 in -100i32..=100 {
                        idx += 1;
                        if idx % n != w {
                            continue;
                        }
                        let mut b = base;
                        match pair {
                            0 => { b.fg = shift(b.fg, d1); b.bg = shift(b.bg, d2); }
                            1 => { b.bg = shift(b.bg, d1); b.ul = shift(b.ul, d2); }
                            2 => { b.fg = shift(b.fg, d1); b.ul = shift(b.ul, d2); }
                            _ => { b.effects = ((b.effects as i32 + d1).clamp(0, 4095)) as u16; b.fg = shift(b.fg, d2); }
                        }
                        if b == base {
                            continue;
                        }
                        let (sa, sb) = (to_style(base), to_style(b));
                        for (x, y) in [(sa, sb), (sb, sa)] {
                            acc.eval();
                            let mut v: Vec<u8> = vec![];
                            let r = x.write_to(&mut v).and_then(|_| y.write_to(&mut v)).and_then(|_| x.write_reset_to(&mut v)).and_then(|_| y.write_reset_to(&mut v));
                            let shown = format!("{x}{y}{x:#}{y:#}");
                            let again = format!("{}{}", x.render(), y.render());
                            if r.is_err() || v != shown.as_bytes() || !shown.starts_with(&again) {
                                acc.fail("consecutive-pairs", json!({"first": sgr::from_style(x), "second": sgr::from_style(y)}), format!("[{}] then [{}] written one after the other give {} through write_to and {} through Display", sgr::from_style(x).describe(), sgr::from_style(y).describe(), esc(&v), esc(shown.as_bytes())));
                                return acc;
                            }
                            // each of them alone is judged by the other sub-checks; here also the
                            // second one's own interpretation, after the first was rendered
                            if let Err(m) = check_style(sgr::from_style(y)) {
                                acc.fail("consecutive-pairs", json!({"first": sgr::from_style(x), "second": sgr::from_style(y)}), format!("after rendering [{}]: {m}", sgr::from_style(x).describe()));
                                return acc;
                            }
                            acc.nontrivial_distinct();
                        }
                    }
                }
            }
            acc.sample(|| json!({"first": base.describe(), "second": "the same with two fields shifted by (d1, d2), d1 in -40..=40, d2 in -100..=100"}));
            acc
        });
        rep.add("consecutive-pairs", true, "a base style and every style that differs from it by (d1, d2) in two fields at once - (fg, bg), (bg, underline), (fg, underline), (effects, fg); d1 in -40..=40, d2 in -100..=100 - rendered one after the other on one thread, in both orders, through write_to / write_reset_to and through Display / render()", accs);
    }

    // format grid
    rep.add(
        "format-grid",
        false,
        "random styles x the grid of 10 fixed specs + 7 width-only x4 + 6 precision-only x4 + 6 width+precision x16 specs, with and without '#', on Style, render(), render_reset(), Effects::render(), colour render_fg/bg, Reset",
        prop_par(
            "format-grid",
            args.seed,
            tier.pick(300, 40_000),
            arb_style,
            |m, acc| {
                acc.evals = acc.evals.saturating_sub(1);
                match check_grid(*m, acc) {
                    Ok(()) => Verdict::ok(None),
                    Err(e) => Verdict { result: Err(e), nontrivial: None },
                }
            },
            style_json,
        ),
    );
}

fn replay(sub: &str, case: &Value) -> Result<(), String> {
    if sub == "consecutive-pairs" {
        let a: MStyle = serde_json::from_value(case["first"].clone()).map_err(|e| format!("bad case: {e}"))?;
        let b: MStyle = serde_json::from_value(case["second"].clone()).map_err(|e| format!("bad case: {e}"))?;
        let (x, y) = (to_style(a), to_style(b));
        let mut v: Vec<u8> = vec![];
        x.write_to(&mut v).and_then(|_| y.write_to(&mut v)).map_err(|e| e.to_string())?;
        let shown = format!("{x}{y}");
        if v != shown.as_bytes() {
            return Err(format!("[{}] then [{}]: write_to gives {}, Display {}", a.describe(), b.describe(), esc(&v), esc(shown.as_bytes())));
        }
        check_style(a)?;
        return check_style(b);
    }
    let m: MStyle = serde_json::from_value(case.clone()).map_err(|e| format!("bad case: {e}"))?;
    check_all(m)
}

fn main() {
    rt::quiet_panics();
    // silence unused warning for Ev import in some cfgs
    let _ = |e: Ev| e;
    rt::main("C05", RULE, run, &replay)
}
