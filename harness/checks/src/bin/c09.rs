//! C09 — colour auto-detection follows the documented precedence for every environment.
//! Single-threaded: the process environment and the global choice are the inputs.
use anstream::{AutoStream, ColorChoice};
use proptest::prelude::*;
use serde::{Deserialize, Serialize};
use serde_json::{json, Value};
use std::ffi::OsString;
use std::os::unix::ffi::OsStringExt;
use vcore::drive::{prop_worker, Verdict};
use vcore::rt::{self, digest_str, Acc, Args, Report};

const RULE: &str = "Exhaustive cross product global {Auto, AlwaysAnsi, Always, Never} x NO_COLOR {unset,'','0','1'} x CLICOLOR_FORCE {unset,'','0','1'} x CLICOLOR {unset,'','0','1'} x TERM {unset,'','dumb','xterm-256color'} x CI {unset,'','true'} x COLORTERM {unset,'truecolor','24bit'} (which must not influence the decision) x stream {Vec<u8>, regular file, pipe (non-terminals), pty master (terminal)} = 9216 configurations x 2 stream classes (terminal, non-terminal), enumerated in this single-threaded process; plus seeded random values per variable (whitespace, '00', 'false', non-UTF-8 bytes, long strings); COLORTERM values and the clap flag enumerated separately; the terminal is also presented as Box<File> and &mut File, and - in a child process whose stdout/stderr are a pty slave - as Stdout, StdoutLock, Stderr, StderrLock, Box<Stdout>. Oracle: the decision list of the property as a pure function of (global, environment, is-terminal); probes against their published conventions. Non-trivial = global is Auto and at least one variable is set (distinct by configuration).";

const VARS: [&str; 5] = ["NO_COLOR", "CLICOLOR_FORCE", "CLICOLOR", "TERM", "CI"];

#[derive(Clone, Debug, Serialize, Deserialize, PartialEq)]
struct Config {
    /// 0 Auto, 1 AlwaysAnsi, 2 Always, 3 Never
    global: u8,
    /// values of NO_COLOR, CLICOLOR_FORCE, CLICOLOR, TERM, CI as byte strings (None = unset)
    env: [Option<Vec<u8>>; 5],
    terminal: bool,
    /// COLORTERM: probed by truecolor() only, it has no part in the decision
    #[serde(default)]
    colorterm: Option<Vec<u8>>,
}

fn choice_of(c: u8) -> ColorChoice {
    match c {
        0 => ColorChoice::Auto,
        1 => ColorChoice::AlwaysAnsi,
        2 => ColorChoice::Always,
        _ => ColorChoice::Never,
    }
}

fn apply_env(cfg: &Config) {
    for (k, v) in VARS.iter().zip(cfg.env.iter()) {
        match v {
            None => std::env::remove_var(k),
            Some(b) => std::env::set_var(k, OsString::from_vec(b.clone())),
        }
    }
    match &cfg.colorterm {
        None => std::env::remove_var("COLORTERM"),
        Some(b) => std::env::set_var("COLORTERM", OsString::from_vec(b.clone())),
    }
    choice_of(cfg.global).write_global();
}

/// the decision list of the property statement
fn expected(cfg: &Config) -> ColorChoice {
    let g = choice_of(cfg.global);
    if g != ColorChoice::Auto {
        return g;
    }
    let non_empty = |i: usize| cfg.env[i].as_ref().map(|v| !v.is_empty()).unwrap_or(false);
    let [_, _, clicolor, term, ci] = &cfg.env;
    if non_empty(0) {
        return ColorChoice::Never;
    }
    if non_empty(1) {
        return ColorChoice::Always;
    }
    if clicolor.as_deref() == Some(b"0".as_slice()) {
        return ColorChoice::Never;
    }
    let term_ok = matches!(term, Some(t) if t.as_slice() != b"dumb");
    let clicolor_on = matches!(clicolor, Some(c) if c.as_slice() != b"0");
    let is_ci = ci.is_some();
    if cfg.terminal && (term_ok || clicolor_on || is_ci) {
        ColorChoice::Always
    } else {
        ColorChoice::Never
    }
}

struct Streams {
    pty: Option<std::fs::File>,
    file: std::fs::File,
    pipe_w: std::fs::File,
    _pipe_r: std::fs::File,
}

fn open_streams() -> Streams {
    use std::os::fd::FromRawFd;
    let pty = std::fs::OpenOptions::new().read(true).write(true).open("/dev/ptmx").ok();
    let path = rt::tmp_dir().join(format!("c09-{}.tmp", std::process::id()));
    let file = std::fs::File::create(&path).expect("tmp file");
    let _ = std::fs::remove_file(&path);
    let mut fds = [0i32; 2];
    let r = unsafe { libc::pipe(fds.as_mut_ptr()) };
    assert_eq!(r, 0, "pipe");
    let (pr, pw) = unsafe { (std::fs::File::from_raw_fd(fds[0]), std::fs::File::from_raw_fd(fds[1])) };
    Streams { pty, file, pipe_w: pw, _pipe_r: pr }
}

/// Does the decision `got` agree with the expected one? An explicit global choice must come back
/// exactly; a decision taken from the environment is "colour enabled" or "colour disabled" - the
/// property does not say whether "enabled" is spelled Always or AlwaysAnsi.
fn agrees(cfg: &Config, got: ColorChoice, want: ColorChoice) -> bool {
    if choice_of(cfg.global) != ColorChoice::Auto {
        got == want
    } else {
        (got == ColorChoice::Never) == (want == ColorChoice::Never) && got != ColorChoice::Auto
    }
}

fn mode_of(c: ColorChoice) -> ColorChoice {
    // the mode of a stream on a non-Windows platform: colour forwarded (whether `current_choice`
    // spells that Always or AlwaysAnsi is not part of the property) or stripped; Auto is no mode
    match c {
        ColorChoice::Never => ColorChoice::Never,
        ColorChoice::Auto => ColorChoice::Auto,
        _ => ColorChoice::AlwaysAnsi,
    }
}

fn check_config(cfg: &Config, st: &Streams) -> Result<(), String> {
    apply_env(cfg);
    check_config_here(cfg, st)
}

/// When does the code under test read the environment? The property speaks of "the environment",
/// not of re-reading it: a library may sample it once per process. A mismatch seen after THIS
/// process changed its own environment is therefore only a violation if a fresh process - started
/// with that environment - shows it too.
#[derive(Default)]
struct EnvMode {
    /// a mismatch was refuted by a fresh process: in-process results are meaningless from here on
    sampled_once: bool,
    refuted: u64,
    seen: u64,
}

fn in_fresh_process(cfg: &Config) -> Result<(), String> {
    let exe = std::env::current_exe().map_err(|e| format!("current_exe: {e}"))?;
    let mut cmd = std::process::Command::new(exe);
    cmd.arg("--cfg-child").arg(serde_json::to_string(cfg).unwrap_or_default());
    for (k, v) in VARS.iter().zip(cfg.env.iter()) {
        match v {
            None => cmd.env_remove(k),
            Some(b) => cmd.env(k, OsString::from_vec(b.clone())),
        };
    }
    match &cfg.colorterm {
        None => cmd.env_remove("COLORTERM"),
        Some(b) => cmd.env("COLORTERM", OsString::from_vec(b.clone())),
    };
    let out = cmd.output().map_err(|e| format!("spawn: {e}"))?;
    let text = String::from_utf8_lossy(&out.stdout).into_owned();
    if text.trim() == "OK" {
        Ok(())
    } else {
        Err(text.trim().to_owned())
    }
}

fn cfg_child(json: &str) {
    let r = (|| -> Result<(), String> {
        let cfg: Config = serde_json::from_str(json).map_err(|e| format!("bad cfg: {e}"))?;
        choice_of(cfg.global).write_global();
        let st = open_streams();
        if cfg.terminal && st.pty.is_none() {
            return Err("no pty in the child".into());
        }
        rt::guarded(|| check_config_here(&cfg, &st))
    })();
    match r {
        Ok(()) => println!("OK"),
        Err(m) => println!("ERR {m}"),
    }
}

/// in-process first; a mismatch is confirmed or refuted by a fresh process; once refuted, every
/// 16th configuration is judged in a fresh process and the others are skipped
fn judged(cfg: &Config, st: &Streams, mode: &mut EnvMode, acc: &mut Acc) -> Result<(), String> {
    mode.seen += 1;
    if mode.sampled_once {
        if mode.seen % 16 != 0 {
            acc.class("skipped:environment-sampled-once-per-process");
            return Ok(());
        }
        acc.class("judged-in-a-fresh-process");
        return in_fresh_process(cfg).map_err(|m| format!("[fresh process with that environment] {m}"));
    }
    match check_config(cfg, st) {
        Ok(()) => Ok(()),
        Err(m) => match in_fresh_process(cfg) {
            Ok(()) => {
                mode.sampled_once = true;
                mode.refuted += 1;
                acc.class("in-process mismatch refuted by a fresh process (the environment is sampled once per process)");
                Ok(())
            }
            Err(m2) => Err(format!("{m} [confirmed by a fresh process started with that environment: {m2}]")),
        },
    }
}

fn check_config_here(cfg: &Config, st: &Streams) -> Result<(), String> {
    if ColorChoice::global() != choice_of(cfg.global) {
        return Err(format!("ColorChoice::global() = {:?} after write_global({:?})", ColorChoice::global(), choice_of(cfg.global)));
    }
    let want = expected(cfg);
    let show = || format!("{}", describe(cfg));
    if cfg.terminal {
        let pty = st.pty.as_ref().ok_or("no pty")?;
        let f = pty.try_clone().map_err(|e| format!("dup pty: {e}"))?;
        let got = AutoStream::choice(&f);
        if !agrees(cfg, got, want) {
            return Err(format!("terminal stream: choice = {:?}, expected {:?} for {}", got, want, show()));
        }
        // the same terminal behind the public wrapper types
        {
            let boxed: Box<std::fs::File> = Box::new(pty.try_clone().map_err(|e| format!("dup pty: {e}"))?);
            let got = AutoStream::choice(&boxed);
            if !agrees(cfg, got, want) {
                return Err(format!("terminal stream as Box<File>: choice = {:?}, expected {:?} for {}", got, want, show()));
            }
            let sb = AutoStream::auto(boxed);
            if !sb.is_terminal() || mode_of(sb.current_choice()) != mode_of(want) {
                return Err(format!("terminal stream as Box<File>: auto(): is_terminal {} current_choice {:?}, expected {:?} for {}", sb.is_terminal(), sb.current_choice(), mode_of(want), show()));
            }
            let mut f2 = pty.try_clone().map_err(|e| format!("dup pty: {e}"))?;
            let r: &mut std::fs::File = &mut f2;
            let got = AutoStream::choice(&r);
            if !agrees(cfg, got, want) {
                return Err(format!("terminal stream as &mut File: choice = {:?}, expected {:?} for {}", got, want, show()));
            }
            let sr = AutoStream::auto(r);
            if !sr.is_terminal() || mode_of(sr.current_choice()) != mode_of(want) {
                return Err(format!("terminal stream as &mut File: auto(): is_terminal {} current_choice {:?}, expected {:?} for {}", sr.is_terminal(), sr.current_choice(), mode_of(want), show()));
            }
        }
        let s = AutoStream::auto(f);
        if !s.is_terminal() {
            return Err("pty not reported as terminal".into());
        }
        if mode_of(s.current_choice()) != mode_of(want) {
            return Err(format!("terminal stream: auto().current_choice() = {:?}, expected {:?} for {}", s.current_choice(), mode_of(want), show()));
        }
    } else {
        let v: Vec<u8> = Vec::new();
        let got = AutoStream::choice(&v);
        if !agrees(cfg, got, want) {
            return Err(format!("Vec<u8>: choice = {:?}, expected {:?} for {}", got, want, show()));
        }
        let s = AutoStream::auto(v);
        if mode_of(s.current_choice()) != mode_of(want) {
            return Err(format!("Vec<u8>: auto().current_choice() = {:?}, expected {:?} for {}", s.current_choice(), mode_of(want), show()));
        }
        let s = AutoStream::new(Vec::<u8>::new(), choice_of(cfg.global));
        if mode_of(s.current_choice()) != mode_of(want) {
            return Err(format!("Vec<u8>: new(global).current_choice() = {:?}, expected {:?} for {}", s.current_choice(), mode_of(want), show()));
        }
        for (name, f) in [("regular file", &st.file), ("pipe", &st.pipe_w)] {
            let boxed: Box<std::fs::File> = Box::new(f.try_clone().map_err(|e| format!("dup: {e}"))?);
            let got = AutoStream::choice(&boxed);
            if !agrees(cfg, got, want) || AutoStream::auto(boxed).is_terminal() {
                return Err(format!("{name} as Box<File>: choice = {:?}, expected {:?} for {}", got, want, show()));
            }
            let f = f.try_clone().map_err(|e| format!("dup: {e}"))?;
            let got = AutoStream::choice(&f);
            if !agrees(cfg, got, want) {
                return Err(format!("{name}: choice = {:?}, expected {:?} for {}", got, want, show()));
            }
            let s = AutoStream::auto(f);
            if s.is_terminal() {
                return Err(format!("{name} reported as terminal"));
            }
            if mode_of(s.current_choice()) != mode_of(want) {
                return Err(format!("{name}: auto().current_choice() = {:?}, expected {:?}", s.current_choice(), mode_of(want)));
            }
        }
    }
    // probes
    let [nc, cf, cc, term, ci] = &cfg.env;
    let ne = |v: &Option<Vec<u8>>| v.as_ref().map(|x| !x.is_empty()).unwrap_or(false);
    if anstyle_query::no_color() != ne(nc) {
        return Err(format!("no_color() = {} for {}", anstyle_query::no_color(), show()));
    }
    if anstyle_query::clicolor_force() != ne(cf) {
        return Err(format!("clicolor_force() = {} for {}", anstyle_query::clicolor_force(), show()));
    }
    let want_cc = cc.as_ref().map(|v| v.as_slice() != b"0");
    if anstyle_query::clicolor() != want_cc {
        return Err(format!("clicolor() = {:?}, expected {:?} for {}", anstyle_query::clicolor(), want_cc, show()));
    }
    let want_term = matches!(term, Some(t) if t.as_slice() != b"dumb");
    if anstyle_query::term_supports_color() != want_term || anstyle_query::term_supports_ansi_color() != want_term {
        return Err(format!("term_supports_color() = {} / ansi {} expected {} for {}", anstyle_query::term_supports_color(), anstyle_query::term_supports_ansi_color(), want_term, show()));
    }
    let want_true = matches!(cfg.colorterm.as_deref(), Some(b"truecolor") | Some(b"24bit"));
    if anstyle_query::truecolor() != want_true {
        return Err(format!("truecolor() = {} for {}", anstyle_query::truecolor(), show()));
    }
    if anstyle_query::is_ci() != ci.is_some() {
        return Err(format!("is_ci() = {} for {}", anstyle_query::is_ci(), show()));
    }
    Ok(())
}

fn describe(cfg: &Config) -> String {
    let mut s = format!("global={:?}", choice_of(cfg.global));
    for (k, v) in VARS.iter().zip(cfg.env.iter()) {
        match v {
            None => s.push_str(&format!(" {k}=<unset>")),
            Some(b) => s.push_str(&format!(" {k}='{}'", rt::esc(b))),
        }
    }
    match &cfg.colorterm {
        None => {}
        Some(b) => s.push_str(&format!(" COLORTERM='{}'", rt::esc(b))),
    }
    s.push_str(if cfg.terminal { " stream=terminal" } else { " stream=non-terminal" });
    s
}

fn check_colorterm() -> Result<u64, String> {
    let mut n = 0;
    let cases: [(Option<&[u8]>, bool); 9] = [
        (None, false),
        (Some(b""), false),
        (Some(b"truecolor"), true),
        (Some(b"24bit"), true),
        (Some(b"TRUECOLOR"), false),
        (Some(b"truecolor "), false),
        (Some(b"yes"), false),
        (Some(b"1"), false),
        (Some(b"\xfftruecolor"), false),
    ];
    for (v, want) in cases {
        n += 1;
        match v {
            None => std::env::remove_var("COLORTERM"),
            Some(b) => std::env::set_var("COLORTERM", OsString::from_vec(b.to_vec())),
        }
        if anstyle_query::truecolor() != want {
            return Err(format!("truecolor() = {} for COLORTERM={:?}", !want, v.map(rt::esc)));
        }
    }
    std::env::remove_var("COLORTERM");
    Ok(n)
}

#[derive(Debug, clap::Parser)]
struct Cli {
    #[command(flatten)]
    color: colorchoice_clap::Color,
}

fn check_clap() -> Result<u64, String> {
    use clap::Parser;
    let mut n = 0;
    let table = [
        (clap::ColorChoice::Auto, colorchoice::ColorChoice::Auto, "auto"),
        (clap::ColorChoice::Always, colorchoice::ColorChoice::Always, "always"),
        (clap::ColorChoice::Never, colorchoice::ColorChoice::Never, "never"),
    ];
    for (c, want, word) in table {
        n += 1;
        let flag = colorchoice_clap::Color { color: c };
        if flag.as_choice() != want {
            return Err(format!("as_choice({:?}) = {:?}", c, flag.as_choice()));
        }
        // start from a different value so that the write is observable
        (if want == colorchoice::ColorChoice::Never { colorchoice::ColorChoice::Always } else { colorchoice::ColorChoice::Never }).write_global();
        flag.write_global();
        if colorchoice::ColorChoice::global() != want {
            return Err(format!("write_global of {:?} left the global at {:?}", c, colorchoice::ColorChoice::global()));
        }
        for argv in [vec!["prog".to_owned(), format!("--color={word}")], vec!["prog".to_owned(), "--color".to_owned(), word.to_owned()]] {
            n += 1;
            let cli = Cli::try_parse_from(&argv).map_err(|e| format!("{:?} rejected: {e}", argv))?;
            if cli.color.as_choice() != want {
                return Err(format!("{:?} parsed to {:?}", argv, cli.color.as_choice()));
            }
        }
    }
    n += 1;
    let cli = Cli::try_parse_from(["prog"]).map_err(|e| format!("no flag rejected: {e}"))?;
    if cli.color.as_choice() != colorchoice::ColorChoice::Auto || colorchoice_clap::Color::default().as_choice() != colorchoice::ColorChoice::Auto {
        return Err("default is not Auto".into());
    }
    for bad in ["--color=sometimes", "--color=", "--color=ALWAYS ", "--colour=always"] {
        n += 1;
        if Cli::try_parse_from(["prog", bad]).is_ok() {
            return Err(format!("{bad} accepted"));
        }
    }
    colorchoice::ColorChoice::Auto.write_global();
    Ok(n)
}

fn arb_value() -> impl Strategy<Value = Option<Vec<u8>>> {
    prop_oneof![
        3 => Just(None),
        2 => Just(Some(vec![])),
        2 => Just(Some(b"0".to_vec())),
        2 => Just(Some(b"1".to_vec())),
        1 => Just(Some(b"dumb".to_vec())),
        1 => Just(Some(b"xterm-256color".to_vec())),
        3 => prop::sample::select(vec![b"0 ".to_vec(), b" 0".to_vec(), b"00".to_vec(), b"false".to_vec(), b"no".to_vec(), b"dumb ".to_vec(), b"DUMB".to_vec(), b"Dumb".to_vec(), b"dum".to_vec(), b"true".to_vec(), b" ".to_vec(), b"\t".to_vec(), b"\xff".to_vec(), b"\xc3".to_vec(), b"0\xff".to_vec(), b"dumb\xff".to_vec(), b"\xef\xbc\x90".to_vec()]).prop_map(Some),
        1 => proptest::collection::vec(1u8..=255, 1..300).prop_map(Some),
    ]
}

fn arb_config(have_pty: bool) -> impl Strategy<Value = Config> {
    let colorterm = prop_oneof![3 => Just(None), 1 => Just(Some(b"truecolor".to_vec())), 1 => Just(Some(b"24bit".to_vec())), 1 => arb_value()];
    (prop_oneof![3 => Just(0u8), 1 => 1u8..4], [arb_value(), arb_value(), arb_value(), arb_value(), arb_value()], any::<bool>(), colorterm)
        .prop_map(move |(global, env, terminal, colorterm)| Config { global, env, terminal: terminal && have_pty, colorterm })
}

fn run(args: &Args, rep: &mut Report) {
    let tier = args.tier;
    let st = open_streams();
    if st.pty.is_none() {
        rep.note("no pty could be opened (/dev/ptmx): the terminal half of the cross product was NOT explored");
    } else if !std::io::IsTerminal::is_terminal(st.pty.as_ref().unwrap()) {
        rep.note("/dev/ptmx is not a terminal here: terminal half not explored");
    }
    let have_pty = st.pty.as_ref().map(std::io::IsTerminal::is_terminal).unwrap_or(false);
    let saved: Vec<(String, Option<OsString>)> = VARS.iter().chain(["COLORTERM"].iter()).map(|k| (k.to_string(), std::env::var_os(k))).collect();

    let four: [Option<Vec<u8>>; 4] = [None, Some(vec![]), Some(b"0".to_vec()), Some(b"1".to_vec())];
    let terms: [Option<Vec<u8>>; 4] = [None, Some(vec![]), Some(b"dumb".to_vec()), Some(b"xterm-256color".to_vec())];
    let colorterms: [Option<Vec<u8>>; 3] = [None, Some(b"truecolor".to_vec()), Some(b"24bit".to_vec())];
    let cis: [Option<Vec<u8>>; 3] = [None, Some(vec![]), Some(b"true".to_vec())];
    let mut acc = Acc::new();
    acc.sample_cap = 4;
    let mut mode = EnvMode::default();
    'outer: for global in 0u8..4 {
        for nc in &four {
            for cf in &four {
                for cc in &four {
                    for term in &terms {
                        for ci in &cis {
                          for colorterm in &colorterms {
                            for terminal in [false, true] {
                                if terminal && !have_pty {
                                    acc.class("skipped:no-pty");
                                    continue;
                                }
                                let cfg = Config { global, env: [nc.clone(), cf.clone(), cc.clone(), term.clone(), ci.clone()], terminal, colorterm: colorterm.clone() };
                                acc.eval();
                                if global == 0 && cfg.env.iter().any(|v| v.is_some()) {
                                    acc.nontrivial_distinct();
                                }
                                acc.class(&format!("expected-{:?}", expected(&cfg)));
                                if let Err(m) = rt::guarded(|| judged(&cfg, &st, &mut mode, &mut acc)) {
                                    acc.fail("cross-product", serde_json::to_value(&cfg).unwrap(), m);
                                    break 'outer;
                                }
                                acc.sample(|| json!({"config": describe(&cfg), "expected": format!("{:?}", expected(&cfg))}));
                            }
                          }
                        }
                    }
                }
            }
        }
    }
    rep.add("cross-product", true, "4 x 4 x 4 x 4 x 4 x 3 configurations x COLORTERM {unset, truecolor, 24bit} (no part in the decision) x {non-terminal (Vec, file, pipe), terminal (pty)}", vec![acc]);

    let mode_cell = std::cell::RefCell::new(mode);
    let mut acc = Acc::new();
    prop_worker(
        &mut acc,
        "random-values",
        rt::derive_seed(args.seed, "random-values", 0),
        tier.pick(20_000, 3_000_000),
        &arb_config(have_pty),
        |cfg, a| match judged(cfg, &st, &mut mode_cell.borrow_mut(), a) {
            Ok(()) => Verdict::ok((cfg.global == 0 && cfg.env.iter().any(|v| v.is_some())).then(|| digest_str(&describe(cfg)))),
            Err(m) => Verdict { result: Err(m), nontrivial: None },
        },
        |cfg| serde_json::to_value(cfg).unwrap(),
    );
    rep.add("random-values", false, "random values per variable incl. whitespace, case variants, non-UTF-8 bytes, long strings", vec![acc]);

    let mode = mode_cell.into_inner();
    if mode.sampled_once {
        rep.note("the code under test samples the environment once per process (an in-process mismatch was refuted by a fresh process): the cross product was judged in fresh processes (every 16th configuration); the COLORTERM probe walk and the std-streams-on-pty walk, which change the environment inside one process, were not run");
    }
    let mut acc = Acc::new();
    match rt::guarded(|| if mode.sampled_once { Ok(0) } else { check_colorterm() }) {
        Ok(n) => {
            acc.evals = n;
            acc.nontrivial_counted = n;
            acc.samples.push(json!({"COLORTERM": "24bit", "truecolor": true}));
        }
        Err(m) => acc.fail("colorterm", json!({}), m),
    }
    rep.add("colorterm", true, "9 COLORTERM values", vec![acc]);
    let mut acc = Acc::new();
    match rt::guarded(check_clap) {
        Ok(n) => {
            acc.evals = n;
            acc.nontrivial_counted = n;
            acc.samples.push(json!({"argv": ["prog", "--color=never"], "global": "Never"}));
        }
        Err(m) => acc.fail("clap-flag", json!({}), m),
    }
    rep.add("clap-flag", true, "3 enum values x {as_choice, write_global, --color=v, --color v} + default + 4 rejected spellings", vec![acc]);

    let mut acc = Acc::new();
    let mut notes = vec![];
    if !mode.sampled_once {
        check_std_on_pty(&mut acc, &mut notes);
    }
    for n in &notes {
        rep.note(n);
    }
    if acc.evals > 0 || acc.failed() {
        rep.add("std-streams-on-pty", true, "the 3072 configurations of the decision cross product x {Stdout, StdoutLock, Stderr, StderrLock, Box<Stdout>, anstream::stdout(), anstream::stderr()} in child processes with both standard streams, only stdout, or only stderr on a pty slave (each stream judged by its own kind)", vec![acc]);
    }

    for (k, v) in saved {
        match v {
            Some(v) => std::env::set_var(&k, v),
            None => std::env::remove_var(&k),
        }
    }
    ColorChoice::Auto.write_global();
    if !have_pty {
        rep.inconclusive("no pty available: terminal half of the cross product not explored");
    }
}

/// Child mode: stdout and stderr of this process are a pty slave. Walks the cross product for the
/// process's own standard streams (and their locks / boxes) and writes the outcome to a file.
fn pty_child(result: &str) {
    let four: [Option<Vec<u8>>; 4] = [None, Some(vec![]), Some(b"0".to_vec()), Some(b"1".to_vec())];
    let terms: [Option<Vec<u8>>; 4] = [None, Some(vec![]), Some(b"dumb".to_vec()), Some(b"xterm-256color".to_vec())];
    let cis: [Option<Vec<u8>>; 3] = [None, Some(vec![]), Some(b"true".to_vec())];
    let mut n = 0u64;
    let mut failure: Option<String> = None;
    let term_ok = std::io::IsTerminal::is_terminal(&std::io::stdout()) || std::io::IsTerminal::is_terminal(&std::io::stderr());
    'outer: for global in 0u8..4 {
        for nc in &four {
            for cf in &four {
                for cc in &four {
                    for term in &terms {
                        for ci in &cis {
                            let cfg = Config { global, env: [nc.clone(), cf.clone(), cc.clone(), term.clone(), ci.clone()], terminal: true, colorterm: None };
                            apply_env(&cfg);
                            // each stream is judged by its own kind (the parent also runs this child with
                            // only one of stdout / stderr on the pty)
                            let out_tty = std::io::IsTerminal::is_terminal(&std::io::stdout());
                            let err_tty = std::io::IsTerminal::is_terminal(&std::io::stderr());
                            let want_out = expected(&Config { terminal: out_tty, ..cfg.clone() });
                            let want_err = expected(&Config { terminal: err_tty, ..cfg.clone() });
                            let got: [(&str, ColorChoice, bool); 7] = [
                                ("Stdout", AutoStream::choice(&std::io::stdout()), AutoStream::auto(std::io::stdout()).is_terminal()),
                                ("StdoutLock", AutoStream::choice(&std::io::stdout().lock()), AutoStream::auto(std::io::stdout().lock()).is_terminal()),
                                ("Stderr", AutoStream::choice(&std::io::stderr()), AutoStream::auto(std::io::stderr()).is_terminal()),
                                ("StderrLock", AutoStream::choice(&std::io::stderr().lock()), AutoStream::auto(std::io::stderr().lock()).is_terminal()),
                                ("Box<Stdout>", AutoStream::choice(&Box::new(std::io::stdout())), AutoStream::auto(Box::new(std::io::stdout())).is_terminal()),
                                // current_choice reports the mode: AlwaysAnsi for every colour-enabled decision
                                ("anstream::stderr()", if mode_of(anstream::stderr().current_choice()) == mode_of(want_err) { want_err } else { anstream::stderr().current_choice() }, anstream::stderr().is_terminal()),
                                ("anstream::stdout()", if mode_of(anstream::stdout().current_choice()) == mode_of(want_out) { want_out } else { anstream::stdout().current_choice() }, anstream::stdout().is_terminal()),
                            ];
                            for (name, g, t) in got {
                                n += 1;
                                let is_out = name.contains("tdout");
                                let (want, tty) = if is_out { (want_out, out_tty) } else { (want_err, err_tty) };
                                if !agrees(&cfg, g, want) || t != tty {
                                    failure = Some(format!("{name} (stdout terminal: {out_tty}, stderr terminal: {err_tty}): choice = {:?} (is_terminal {t}), expected {:?} for {}", g, want, describe(&cfg)));
                                    break 'outer;
                                }
                            }
                        }
                    }
                }
            }
        }
    }
    let _ = std::fs::write(result, serde_json::to_string(&json!({"checked": n, "terminal": term_ok, "failure": failure})).unwrap());
}

/// run `pty_child` with a fresh pty slave as its stdout and stderr
fn check_std_on_pty(acc: &mut Acc, rep_note: &mut Vec<String>) {
    use std::os::fd::{AsRawFd, FromRawFd};
    let master = match std::fs::OpenOptions::new().read(true).write(true).open("/dev/ptmx") {
        Ok(m) => m,
        Err(_) => {
            rep_note.push("std-streams-on-pty: /dev/ptmx cannot be opened".into());
            return;
        }
    };
    let mut name = [0 as libc::c_char; 128];
    let ok = unsafe { libc::grantpt(master.as_raw_fd()) == 0 && libc::unlockpt(master.as_raw_fd()) == 0 && libc::ptsname_r(master.as_raw_fd(), name.as_mut_ptr(), name.len()) == 0 };
    if !ok {
        rep_note.push("std-streams-on-pty: grantpt/unlockpt/ptsname failed".into());
        return;
    }
    let fd = unsafe { libc::open(name.as_ptr(), libc::O_RDWR | libc::O_NOCTTY) };
    if fd < 0 {
        rep_note.push("std-streams-on-pty: the pty slave cannot be opened".into());
        return;
    }
    let slave = unsafe { std::fs::File::from_raw_fd(fd) };
    let result = rt::tmp_dir().join(format!("c09-pty-{}.json", std::process::id()));
    let exe = match std::env::current_exe() {
        Ok(e) => e,
        Err(_) => return,
    };
    // three layouts: both standard streams on the pty, only stdout, only stderr
    for layout in ["both", "stdout-only", "stderr-only"] {
        let (so, se) = match (slave.try_clone(), slave.try_clone()) {
            (Ok(a), Ok(b)) => (a, b),
            _ => return,
        };
        let mut cmd = std::process::Command::new(&exe);
        cmd.arg("--pty-child").arg(&result).stdin(std::process::Stdio::null());
        match layout {
            "both" => cmd.stdout(so).stderr(se),
            "stdout-only" => cmd.stdout(so).stderr(std::process::Stdio::null()),
            _ => cmd.stdout(std::process::Stdio::null()).stderr(se),
        };
        let status = cmd.status();
        let out = std::fs::read(&result).ok().and_then(|b| serde_json::from_slice::<Value>(&b).ok());
        let _ = std::fs::remove_file(&result);
        match (status, out) {
            (Ok(st), Some(v)) if st.success() => {
                if v["terminal"].as_bool() != Some(true) {
                    rep_note.push("std-streams-on-pty: the child's stdout/stderr were not terminals".into());
                    return;
                }
                acc.evals += v["checked"].as_u64().unwrap_or(0);
                acc.nontrivial_counted = acc.evals;
                if let Some(f) = v["failure"].as_str() {
                    acc.fail("std-streams-on-pty", json!({"layout": layout}), f.to_owned());
                    return;
                }
            }
            _ => {
                rep_note.push("std-streams-on-pty: the child process could not be run".into());
                return;
            }
        }
    }
    drop(slave);
    acc.samples.push(json!({"streams": ["Stdout", "StdoutLock", "Stderr", "StderrLock", "Box<Stdout>", "anstream::stderr()", "anstream::stdout()"], "layouts": ["both on the pty", "stdout only", "stderr only"]}));
}

fn replay(sub: &str, case: &Value) -> Result<(), String> {
    if sub == "std-streams-on-pty" {
        let mut acc = Acc::new();
        let mut notes = vec![];
        check_std_on_pty(&mut acc, &mut notes);
        return match acc.failure {
            Some(f) => Err(f.message),
            None => Ok(()),
        };
    }
    match sub {
        "colorterm" => check_colorterm().map(|_| ()),
        "clap-flag" => check_clap().map(|_| ()),
        _ => {
            let cfg: Config = serde_json::from_value(case.clone()).map_err(|e| format!("bad case: {e}"))?;
            let st = open_streams();
            if cfg.terminal && st.pty.is_none() {
                return Err("no pty available for replay".into());
            }
            check_config(&cfg, &st).or_else(|m| match in_fresh_process(&cfg) {
                Ok(()) => Ok(()),
                Err(m2) => Err(format!("{m} [fresh process: {m2}]")),
            })
        }
    }
}

fn main() {
    let argv: Vec<String> = std::env::args().collect();
    if argv.get(1).map(|s| s.as_str()) == Some("--cfg-child") {
        cfg_child(argv.get(2).map(|s| s.as_str()).unwrap_or(""));
        return;
    }
    if argv.get(1).map(|s| s.as_str()) == Some("--pty-child") {
        pty_child(argv.get(2).map(|s| s.as_str()).unwrap_or("/dev/null"));
        return;
    }
    rt::quiet_panics();
    rt::main("C09", RULE, run, &replay)
}
