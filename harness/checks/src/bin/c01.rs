//! C01 — stripping removes exactly the escape sequences and nothing else.
use checks::real::*;
use proptest::prelude::*;
use serde_json::Value;
use vcore::drive::{case_bytes, enum_par, stream_par, Verdict};
use vcore::gen::{self, StreamCfg};
use vcore::rt::{self, digest, esc, Acc, Args, Report};
use vcore::vt;

const RULE: &str = "Inputs: every byte string of the stated lengths over the class-representative alphabets (byte-level and character-level), and seeded G-STREAM grammar streams (all classes incl. truncated sequences, embedded controls, C1 bytes, malformed UTF-8; and a valid-UTF-8 sub-language). Oracles: O1 output = visible text of the reference VT parser (valid UTF-8 inputs, all entry points), O2 pieces are in-order sub-slices, &str pieces valid UTF-8, no ESC/DEL/non-whitespace C0 byte in any output (all inputs), O3 all entry points agree. Non-trivial = the input has at least one visible byte and at least one byte that must be dropped (distinct by input bytes).";

/// All oracles on one input. Returns whether the case is non-trivial.
fn check(input: &[u8]) -> Result<bool, String> {
    let valid = vt::is_valid_utf8(input);
    let model = vt::visible(input);
    let nontrivial = !model.is_empty() && model.len() != input.len();

    // byte-API entry points
    let mut outs: Vec<(&str, Vec<u8>)> = vec![
        ("strip_bytes (pieces)", strip_bytes_pieces(input)?),
        ("strip_bytes().into_vec()", strip_bytes_vec(input)),
        ("StripBytes::strip_next", strip_bytes_incremental_one(input)?),
        ("StripStream<Vec<u8>>::write_all", strip_stream_write_all(input)?),
        ("AutoStream::never(Vec<u8>)::write_all", auto_never_write_all(input)?),
    ];
    if valid {
        // SAFETY-free: validated above by R-UTF8, cross-checked by std here
        let s = std::str::from_utf8(input)
            .map_err(|_| "R-UTF8 accepted what std rejects (harness bug)".to_owned())?;
        outs.push(("strip_str (pieces)", strip_str_pieces(s)?));
        outs.push(("strip_str().to_string()", strip_str_to_string(s)));
        outs.push(("strip_str() Display", strip_str_display(s)));
        outs.push(("StripStr::strip_next", strip_str_incremental_one(s)?));
    }
    // O2: forbidden bytes
    for (name, out) in &outs {
        if let Some(b) = forbidden_byte(out) {
            return Err(format!(
                "{name} output contains control byte {:#04x}: input {} -> {}",
                b,
                esc(input),
                esc(out)
            ));
        }
    }
    // O1: exact, valid UTF-8 only
    if valid {
        for (name, out) in &outs {
            if *out != model {
                return Err(format!(
                    "{name}: input {} gave {} but the visible text is {}",
                    esc(input),
                    esc(out),
                    esc(&model)
                ));
            }
        }
    }
    // O3: agreement (for malformed input this is all that is asserted beyond O2)
    for (name, out) in &outs[1..] {
        if *out != outs[0].1 {
            return Err(format!(
                "{name} gave {} but {} gave {} for input {}",
                esc(out),
                outs[0].0,
                esc(&outs[0].1),
                esc(input)
            ));
        }
    }
    Ok(nontrivial)
}

fn run(args: &Args, rep: &mut Report) {
    let tier = args.tier;
    rep.assume("visible text of malformed UTF-8 is not defined by the property beyond the safety clauses; only O2/O3 are asserted there");
    let body = |s: &[u8], acc: &mut Acc| -> Result<(), String> {
        if vt::is_valid_utf8(s) {
            acc.class("valid-utf8");
        } else {
            acc.class("malformed-utf8");
        }
        if check(s)? {
            acc.nontrivial_distinct();
            acc.sample(|| vcore::drive::hex_case(s));
        }
        Ok(())
    };
    let full = gen::as_symbols(gen::ALPHA_FULL);
    let full: Vec<&[u8]> = full.iter().map(|v| v.as_slice()).collect();
    let sub = gen::as_symbols(gen::ALPHA_SUB);
    let sub: Vec<&[u8]> = sub.iter().map(|v| v.as_slice()).collect();
    let strs: Vec<&[u8]> = gen::ALPHA_STR.to_vec();
    let lens_full: &[usize] = tier.pick(&[0, 1, 2, 3], &[0, 1, 2, 3, 4]);
    let lens_sub: &[usize] = tier.pick(&[4], &[5, 6]);
    let lens_str: &[usize] = tier.pick(&[1, 2, 3, 4], &[1, 2, 3, 4, 5, 6]);
    rep.add(
        "enum-full-alphabet",
        true,
        &format!("all byte strings of lengths {:?} over {} class representatives", lens_full, full.len()),
        enum_par("enum-full-alphabet", &full, lens_full, body),
    );
    rep.add(
        "enum-sub-alphabet",
        true,
        &format!("all byte strings of lengths {:?} over {} symbols", lens_sub, sub.len()),
        enum_par("enum-sub-alphabet", &sub, lens_sub, body),
    );
    rep.add(
        "enum-symbol-alphabet",
        true,
        &format!("all valid-UTF-8 strings of {:?} symbols over {} characters/introducers", lens_str, strs.len()),
        enum_par("enum-symbol-alphabet", &strs, lens_str, body),
    );
    let vd = |bytes: &[u8]| match check(bytes) {
        Ok(nt) => Verdict::ok(nt.then(|| digest(bytes))),
        Err(m) => Verdict {
            result: Err(m),
            nontrivial: None,
        },
    };
    rep.add(
        "grammar-utf8",
        false,
        "G-STREAM restricted to valid UTF-8 (exact oracle applies), 0..40 items",
        stream_par(
            "grammar-utf8",
            args.seed,
            tier.pick(20_000, 1_000_000),
            StreamCfg::UTF8,
            || Just(()),
            |b, _, _| vd(b),
            |_| Value::Null,
        ),
    );
    rep.add(
        "grammar-all",
        false,
        "G-STREAM with C1 bytes and malformed UTF-8, 0..40 items",
        stream_par(
            "grammar-all",
            args.seed,
            tier.pick(20_000, 1_000_000),
            StreamCfg::ALL,
            || Just(()),
            |b, _, _| vd(b),
            |_| Value::Null,
        ),
    );
    rep.add(
        "grammar-long",
        false,
        "G-STREAM up to 400 items (several KiB)",
        stream_par(
            "grammar-long",
            args.seed,
            tier.pick(600, 20_000),
            StreamCfg { max_items: 400, ..StreamCfg::ALL },
            || Just(()),
            |b, _, acc| {
                acc.class(if b.len() >= 2048 { "len>=2KiB" } else { "len<2KiB" });
                vd(b)
            },
            |_| Value::Null,
        ),
    );
}

fn replay(_sub: &str, case: &Value) -> Result<(), String> {
    check(&case_bytes(case)).map(|_| ())
}

fn main() {
    rt::quiet_panics();
    rt::main("C01", RULE, run, &replay)
}
