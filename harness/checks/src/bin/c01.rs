//! C01 — stripping removes exactly the escape sequences and nothing else.
use checks::oracle::strip as check;
use proptest::prelude::*;
use serde_json::Value;
use vcore::drive::{case_bytes, enum_par, huge_par, stream_par, Verdict};
use vcore::gen::{self, StreamCfg};
use vcore::rt::{self, digest, Acc, Args, Report};
use vcore::vt;

const RULE: &str = "Inputs: every byte string of the stated lengths over the class-representative alphabets (byte-level and character-level), and seeded G-STREAM grammar streams (all classes incl. truncated sequences, embedded controls, C1 bytes, malformed UTF-8; and a valid-UTF-8 sub-language). Oracles: O1 output = visible text of the reference VT parser (valid UTF-8 inputs, all entry points), O2 pieces are in-order sub-slices, &str pieces valid UTF-8, no ESC/DEL/non-whitespace C0 byte in any output (all inputs), O3 all entry points agree. Non-trivial = the input has at least one visible byte and at least one byte that must be dropped (distinct by input bytes).";


fn run(args: &Args, rep: &mut Report) {
    let tier = args.tier;
    rep.assume("visible text of malformed UTF-8 is not defined by the property beyond the safety clauses; only O2/O3 are asserted there");
    let body = |s: &[u8], acc: &mut Acc| -> Result<(), String> {
        if vt::is_valid_utf8(s) {
            acc.class("valid-utf8");
        } else {
            acc.class("malformed-utf8");
        }
        if check(s)? {
            acc.nontrivial_distinct();
            acc.sample(|| vcore::drive::hex_case(s));
        }
        Ok(())
    };
    let full = gen::as_symbols(gen::ALPHA_FULL);
    let full: Vec<&[u8]> = full.iter().map(|v| v.as_slice()).collect();
    let sub = gen::as_symbols(gen::ALPHA_SUB);
    let sub: Vec<&[u8]> = sub.iter().map(|v| v.as_slice()).collect();
    let strs: Vec<&[u8]> = gen::ALPHA_STR.to_vec();
    let lens_full: &[usize] = tier.pick(&[0, 1, 2, 3], &[0, 1, 2, 3, 4]);
    let lens_sub: &[usize] = tier.pick(&[4], &[5, 6]);
    let lens_str: &[usize] = tier.pick(&[1, 2, 3, 4], &[1, 2, 3, 4, 5, 6]);
    rep.add(
        "enum-full-alphabet",
        true,
        &format!("all byte strings of lengths {:?} over {} class representatives", lens_full, full.len()),
        enum_par("enum-full-alphabet", &full, lens_full, body),
    );
    rep.add(
        "enum-sub-alphabet",
        true,
        &format!("all byte strings of lengths {:?} over {} symbols", lens_sub, sub.len()),
        enum_par("enum-sub-alphabet", &sub, lens_sub, body),
    );
    rep.add(
        "enum-symbol-alphabet",
        true,
        &format!("all valid-UTF-8 strings of {:?} symbols over {} characters/introducers", lens_str, strs.len()),
        enum_par("enum-symbol-alphabet", &strs, lens_str, body),
    );
    let vd = |bytes: &[u8]| match check(bytes) {
        Ok(nt) => Verdict::ok(nt.then(|| digest(bytes))),
        Err(m) => Verdict {
            result: Err(m),
            nontrivial: None,
        },
    };
    rep.add(
        "grammar-utf8",
        false,
        "G-STREAM restricted to valid UTF-8 (exact oracle applies), 0..40 items",
        stream_par(
            "grammar-utf8",
            args.seed,
            tier.pick(20_000, 1_000_000),
            StreamCfg::UTF8,
            || Just(()),
            |b, _, _| vd(b),
            |_| Value::Null,
        ),
    );
    rep.add(
        "grammar-all",
        false,
        "G-STREAM with C1 bytes and malformed UTF-8, 0..40 items",
        stream_par(
            "grammar-all",
            args.seed,
            tier.pick(20_000, 1_000_000),
            StreamCfg::ALL,
            || Just(()),
            |b, _, _| vd(b),
            |_| Value::Null,
        ),
    );
    rep.add(
        "grammar-long",
        false,
        "G-STREAM up to 400 items (several KiB)",
        stream_par(
            "grammar-long",
            args.seed,
            tier.pick(600, 20_000),
            StreamCfg { max_items: 400, ..StreamCfg::ALL },
            || Just(()),
            |b, _, acc| {
                acc.class(if b.len() >= 2048 { "len>=2KiB" } else { "len<2KiB" });
                vd(b)
            },
            |_| Value::Null,
        ),
    );
    for (name, cfg) in [("grammar-huge", StreamCfg::ALL), ("grammar-huge-utf8", StreamCfg::UTF8)] {
        rep.add(
            name,
            false,
            "G-STREAM (0..8 items) with one printable run of 64..200 KiB (16-bit length boundaries)",
            huge_par(name, args.seed, tier.pick(150, 10_000), cfg, || Just(()), |b, _, _| vd(b), |_| Value::Null),
        );
    }
    if args.tier == vcore::rt::Tier::Thorough {
        checks::fuzzrun::campaign(rep, args, "strip", 400000, checks::oracle::fuzz_strip);
    }
}

fn replay(_sub: &str, case: &Value) -> Result<(), String> {
    if _sub.starts_with("libfuzzer-") {
        return checks::oracle::fuzz_strip(&vcore::drive::case_bytes(case));
    }
    check(&case_bytes(case)).map(|_| ())
}

fn main() {
    rt::quiet_panics();
    rt::main("C01", RULE, run, &replay)
}
