//! C14 — SVG rendering is well-formed, text-preserving and style-faithful.
use anstyle_svg::Term;
use proptest::prelude::*;
use serde::{Deserialize, Serialize};
use serde_json::{json, Value};
use std::collections::BTreeMap;
use std::sync::Mutex;
use vcore::drive::{prop_par, Verdict};
use vcore::gen::{self, SgrStreamCfg};
use vcore::palette::{self, xterm240, Rgb};
use vcore::rt::{self, digest_str, esc, Acc, Args, Report};
use vcore::sgr::{self, MColor, MStyle};
use vcore::vt;
use vcore::xml::{self, Element};

const RULE: &str = "Inputs: UTF-8 texts from the C07 generator (text, whitespace/C0 controls, G-SGR sequences, non-SGR sequences) plus XML-special characters, entity look-alikes, wide / zero-width / combining characters, CRLF, lone CR, TAB, C1 characters; U+000C, U+FFFE, U+FFFF and DEL are replaced before rendering; x {VGA, Win10} x default fg/bg in {palette, indexed, RGB} x background on/off x min_width_px, the builder methods called in a generated order. Oracle: the output parses with an independent strict XML 1.0 parser (and, as a second opinion, every document of the run is fed to Python's expat); height == lines*18+20; text of the foreground row per line == visible text of the reference parser split at LF with one CR before the LF dropped (a CR inside a line must come back as CR: written literally it would reach an XML reader as LF); every class has a rule; per character the declarations reached through the style sheet (fill, text-decoration-color, bold, italic, underline kinds, line-through, opacity) == the reference SGR style with invert applied against the configured defaults, RGB through the palette / xterm formula; background row fills == effective backgrounds in order. Non-trivial = at least 2 differently styled runs and at least one newline or XML-special character (distinct by case).";

#[derive(Clone, Debug, Serialize, Deserialize)]
struct Case {
    text: String,
    win10: bool,
    fg: MColor,
    bg: MColor,
    background: bool,
    /// Term::min_width_px (None = the default); widens the canvas, nothing else
    #[serde(default)]
    min_width: Option<usize>,
    /// order in which the builder methods are called (a permutation index); the result must not depend on it
    #[serde(default)]
    order: u8,
}

fn rgb_of(c: MColor, pal: &[Rgb; 16]) -> Rgb {
    match c {
        MColor::Ansi(k) => pal[k as usize & 15],
        MColor::Idx(i) if i < 16 => pal[i as usize],
        MColor::Idx(i) => xterm240(i as usize),
        MColor::Rgb(r, g, b) => (r, g, b),
    }
}

fn parse_hex(s: &str) -> Option<Rgb> {
    let h = s.trim().strip_prefix('#')?;
    if h.len() != 6 || !h.bytes().all(|b| b.is_ascii_hexdigit()) {
        return None;
    }
    Some((u8::from_str_radix(&h[0..2], 16).ok()?, u8::from_str_radix(&h[2..4], 16).ok()?, u8::from_str_radix(&h[4..6], 16).ok()?))
}

#[derive(Clone, Debug, PartialEq, Eq, Default)]
struct Pres {
    fill: Option<Rgb>,
    ul_color: Option<Rgb>,
    bold: bool,
    italic: bool,
    dimmed: bool,
    hidden: bool,
    strike: bool,
    /// bit set over sgr::UL_KINDS
    kinds: u16,
}

type Sheet = BTreeMap<String, Vec<(String, String)>>;

fn resolve(classes: &str, sheet: &Sheet) -> Result<Pres, String> {
    let mut p = Pres::default();
    for c in classes.split_ascii_whitespace() {
        let decls = sheet.get(c).ok_or_else(|| format!("class {c:?} is used but has no rule in the style sheet"))?;
        let get = |k: &str| decls.iter().find(|(n, _)| n == k).map(|(_, v)| v.as_str());
        if let Some(v) = get("fill") {
            p.fill = Some(parse_hex(v).ok_or_else(|| format!("class {c}: fill {v:?} is not #RRGGBB"))?);
        }
        let colour = get("text-decoration-color");
        if let Some(v) = colour {
            p.ul_color = Some(parse_hex(v).ok_or_else(|| format!("class {c}: text-decoration-color {v:?} is not #RRGGBB"))?);
        }
        if get("font-weight") == Some("bold") {
            p.bold = true;
        }
        if get("font-style") == Some("italic") {
            p.italic = true;
        }
        match get("opacity") {
            Some("0") => p.hidden = true,
            Some(_) => p.dimmed = true,
            None => {}
        }
        if let Some(line) = get("text-decoration-line") {
            if line.contains("line-through") {
                p.strike = true;
            }
            // the colour rule also carries `text-decoration-line: underline`; the
            // underline *kind* is judged from the rules that do not set a colour
            if line.contains("underline") && colour.is_none() {
                p.kinds |= match get("text-decoration-style") {
                    None | Some("solid") => sgr::UNDERLINE,
                    Some("double") => sgr::DOUBLE_UNDERLINE,
                    Some("wavy") => sgr::CURLY_UNDERLINE,
                    Some("dotted") => sgr::DOTTED_UNDERLINE,
                    Some("dashed") => sgr::DASHED_UNDERLINE,
                    Some(other) => return Err(format!("class {c}: unknown text-decoration-style {other:?}")),
                };
            }
        }
    }
    Ok(p)
}

fn expected_pres(m: &MStyle, cfg: &Case, pal: &[Rgb; 16]) -> (Pres, Option<Rgb>) {
    let invert = m.effects & sgr::INVERT != 0;
    let (fg, bg) = if invert {
        (Some(m.bg.unwrap_or(cfg.bg)), Some(m.fg.unwrap_or(cfg.fg)))
    } else {
        (m.fg, m.bg)
    };
    let p = Pres {
        fill: Some(rgb_of(fg.unwrap_or(cfg.fg), pal)),
        ul_color: m.ul.map(|c| rgb_of(c, pal)),
        bold: m.effects & sgr::BOLD != 0,
        italic: m.effects & sgr::ITALIC != 0,
        dimmed: m.effects & sgr::DIMMED != 0,
        hidden: m.effects & sgr::HIDDEN != 0,
        strike: m.effects & sgr::STRIKETHROUGH != 0,
        kinds: m.effects & sgr::UL_KINDS,
    };
    (p, bg.map(|c| rgb_of(c, pal)))
}

fn sanitize(s: &str) -> String {
    s.chars()
        .map(|c| match c {
            '\u{c}' => '\t',
            '\u{fffe}' | '\u{ffff}' => '\u{fffd}',
            '\u{7f}' => 'D',
            c => c,
        })
        .collect()
}

fn render(case: &Case) -> String {
    let pal = if case.win10 { anstyle_svg::WIN10_CONSOLE } else { anstyle_svg::VGA };
    // the five builder calls, applied in the order selected by `order` (Lehmer code of a permutation)
    let mut steps: Vec<u8> = vec![0, 1, 2, 3, 4];
    let mut code = case.order as usize % 120;
    let mut seq = Vec::new();
    for n in (1..=5).rev() {
        seq.push(steps.remove(code % n));
        code /= n;
    }
    let mut term = Term::new();
    for step in seq {
        term = match step {
            0 => term.palette(pal),
            1 => term.fg_color(sgr::to_color(case.fg)),
            2 => term.bg_color(sgr::to_color(case.bg)),
            3 => term.background(case.background),
            _ => match case.min_width {
                Some(w) => term.min_width_px(w),
                None => term,
            },
        };
    }
    term.render_svg(&case.text)
}

fn check_doc(case: &Case, doc: &str) -> Result<bool, String> {
    let pal = if case.win10 { &palette::WIN10 } else { &palette::VGA };
    let root = xml::parse(doc)?;
    if root.name != "svg" {
        return Err(format!("root element is <{}>", root.name));
    }
    // model
    let chars = sgr::styled_chars(case.text.as_bytes(), vt::is_ws_control);
    let mut lines: Vec<Vec<(MStyle, char)>> = vec![];
    if !chars.is_empty() {
        let mut cur = vec![];
        for (st, c) in &chars {
            if *c == '\n' {
                if matches!(cur.last(), Some((_, '\r'))) {
                    cur.pop();
                }
                lines.push(std::mem::take(&mut cur));
            } else {
                cur.push((*st, *c));
            }
        }
        lines.push(cur);
    }
    // canvas
    let want_h = format!("{}px", lines.len() * 18 + 20);
    if root.attr("height") != Some(want_h.as_str()) {
        return Err(format!("height is {:?} but {} lines need {want_h}", root.attr("height"), lines.len()));
    }
    // style sheet
    let style = root.elements().find(|e| e.name == "style").ok_or("no <style> element")?;
    let mut sheet: Sheet = BTreeMap::new();
    for (sel, decls) in xml::parse_css(&style.text())? {
        if let Some(class) = sel.strip_prefix('.') {
            sheet.entry(class.to_owned()).or_default().extend(decls);
        }
    }
    let rect = root.elements().find(|e| e.name == "rect");
    if rect.is_some() != case.background {
        return Err(format!("background rect present: {}, requested: {}", rect.is_some(), case.background));
    }
    if let Some(r) = rect {
        let p = r.attr("class").unwrap_or("");
        let decls = sheet.get(p.trim()).ok_or("background rect class has no rule")?;
        let v = decls.iter().find(|(k, _)| k == "background").map(|(_, v)| v.as_str()).unwrap_or("");
        if parse_hex(v) != Some(rgb_of(case.bg, pal)) {
            return Err(format!("canvas background is {v:?}, the configured default background is {:?}", rgb_of(case.bg, pal)));
        }
    }
    // one <text> element, or several layers of them (e.g. all background rows painted first): the
    // rows of a line are those with the same y, in document order - the last one carries the text
    let texts: Vec<&Element> = root.elements().filter(|e| e.name == "text").collect();
    if texts.is_empty() {
        return Err("no <text> element".into());
    }
    let mut default_fill = None;
    let mut rows: Vec<&Element> = vec![];
    for text in &texts {
        let container = resolve(text.attr("class").unwrap_or(""), &sheet)?;
        let fill = container.fill.ok_or("the text container has no fill")?;
        if fill != rgb_of(case.fg, pal) {
            return Err(format!("default fill is {:?}, the configured default foreground is {:?}", fill, rgb_of(case.fg, pal)));
        }
        default_fill = Some(fill);
        if !text.own_text().trim().is_empty() {
            return Err(format!("stray text directly inside <text>: {:?}", text.own_text().trim()));
        }
        rows.extend(text.elements());
    }
    let default_fill = default_fill.unwrap();
    // rows grouped by y
    let mut grouped: Vec<(String, Vec<&Element>)> = vec![];
    for r in rows {
        if r.name != "tspan" {
            return Err(format!("unexpected <{}> inside <text>", r.name));
        }
        let y = r.attr("y").ok_or("row tspan without y")?.to_owned();
        match grouped.iter_mut().find(|(ly, _)| *ly == y) {
            Some((_, v)) => v.push(r),
            None => grouped.push((y, vec![r])),
        }
    }
    let ypx = |y: &str| y.trim_end_matches("px").parse::<f64>().unwrap_or(f64::MAX);
    grouped.sort_by(|a, b| ypx(&a.0).partial_cmp(&ypx(&b.0)).unwrap_or(std::cmp::Ordering::Equal));
    if grouped.len() != lines.len() {
        return Err(format!("{} rows of text in the SVG, the visible text has {} lines", grouped.len(), lines.len()));
    }
    let mut styles_seen = std::collections::BTreeSet::new();
    for (li, ((y, rows), line)) in grouped.iter().zip(lines.iter()).enumerate() {
        let want_y = format!("{}px", 10 + 18 * (li + 1));
        if *y != want_y {
            return Err(format!("line {li} is at y={y}, expected {want_y}"));
        }
        if rows.len() > 2 {
            return Err(format!("line {li} has {} rows", rows.len()));
        }
        let fg_row = rows.last().unwrap();
        if !fg_row.own_text().trim().is_empty() {
            return Err(format!("line {li}: text outside the styled spans: {:?}", fg_row.own_text()));
        }
        // foreground row: per character
        let mut got: Vec<(char, Pres)> = vec![];
        for span in fg_row.elements() {
            let mut p = resolve(span.attr("class").unwrap_or(""), &sheet)?;
            if p.fill.is_none() {
                p.fill = Some(default_fill);
            }
            for ch in span.text().chars() {
                // the text an XML reader recovers: a carriage return written literally reaches it
                // as LF (end-of-line normalisation, XML 1.0 2.11) - then the recovered text is NOT
                // the visible text -, one written as a character reference comes back as it is (F30)
                got.push((ch, p.clone()));
            }
        }
        let mut want: Vec<(char, Pres)> = vec![];
        let mut want_bg: Vec<Option<Rgb>> = vec![];
        for (st, ch) in line {
            let (p, bg) = expected_pres(st, case, pal);
            want.push((*ch, p));
            styles_seen.insert(format!("{:?}", st));
            // the renderer measures strings (control characters such as TAB count as one cell there)
            if unicode_width::UnicodeWidthStr::width(ch.encode_utf8(&mut [0u8; 4]) as &str) > 0 {
                want_bg.push(bg);
            }
        }
        if got != want {
            let gt: String = got.iter().map(|x| x.0).collect();
            let wt: String = want.iter().map(|x| x.0).collect();
            if gt != wt {
                return Err(format!("line {li}: the SVG shows {:?}, the visible text is {:?}", gt, wt));
            }
            let i = got.iter().zip(want.iter()).position(|(a, b)| a != b).unwrap_or(0);
            return Err(format!(
                "line {li}, character #{i} {:?}: the span's classes denote {:?} but the style in effect is {:?}",
                got[i].0, got[i].1, want[i].1
            ));
        }
        // background row
        // (a line of printable ASCII occupies one cell per character, whatever width measure the
        // renderer uses: there the fills are compared cell by cell, so that a background neither
        // stops short of its text nor runs on under the text that follows)
        let cellwise = line.iter().all(|(_, ch)| (' '..='~').contains(ch));
        let want_cells = want_bg.clone();
        want_bg.dedup();
        if rows.len() == 2 {
            let mut got_bg: Vec<Option<Rgb>> = vec![];
            let mut got_cells: Vec<Option<Rgb>> = vec![];
            for span in rows[0].elements() {
                if span.text().is_empty() {
                    continue;
                }
                let p = resolve(span.attr("class").unwrap_or(""), &sheet)?;
                got_bg.push(p.fill);
                got_cells.extend(span.text().chars().map(|_| p.fill));
            }
            if cellwise {
                let trim = |v: &[Option<Rgb>]| v[..v.iter().rposition(|x| x.is_some()).map_or(0, |i| i + 1)].to_vec();
                let (g, w) = (trim(&got_cells), trim(&want_cells));
                if g != w {
                    let i = g.iter().zip(w.iter()).position(|(a, b)| a != b).unwrap_or(g.len().min(w.len()));
                    return Err(format!(
                        "line {li}: background row, cell #{i}: filled with {:?} but the background in effect for that cell's character is {:?} (row has {} filled cells, the text {})",
                        g.get(i).copied().flatten(), w.get(i).copied().flatten(), g.len(), w.len()
                    ));
                }
            }
            got_bg.dedup();
            let all_none = |v: &Vec<Option<Rgb>>| v.iter().all(|x| x.is_none());
            if got_bg != want_bg && !(all_none(&got_bg) && all_none(&want_bg)) {
                return Err(format!("line {li}: background row shows fills {:?}, the effective backgrounds are {:?}", got_bg, want_bg));
            }
        } else if want_bg.iter().any(|b| b.is_some()) {
            return Err(format!("line {li} has text with a background colour but no background row"));
        }
    }
    let special = case.text.contains(['\n', '&', '<', '>', '"', '\'']);
    Ok(styles_seen.len() >= 2 && special)
}

fn arb_color() -> impl Strategy<Value = MColor> {
    prop_oneof![
        (0u8..16).prop_map(MColor::Ansi),
        any::<u8>().prop_map(MColor::Idx),
        (any::<u8>(), any::<u8>(), any::<u8>()).prop_map(|(r, g, b)| MColor::Rgb(r, g, b)),
    ]
}

fn arb_case() -> impl Strategy<Value = (Case, u64)> {
    let cfg = SgrStreamCfg { max_items: 20, others: true, c0: true, xml_text: true, single_group: false };
    (
        gen::sgr_stream(cfg),
        any::<bool>(),
        prop_oneof![2 => Just(MColor::Ansi(7)), 1 => arb_color()],
        prop_oneof![2 => Just(MColor::Ansi(0)), 1 => arb_color()],
        prop::bool::weighted(0.7),
        prop_oneof![3 => Just(None), 1 => prop::sample::select(vec![0usize, 1, 719, 100_000]).prop_map(Some)],
        0u8..120,
    )
        .prop_map(|((items, removed), win10, fg, bg, background, min_width, order)| {
            let bytes = gen::render(&items);
            let text = sanitize(&String::from_utf8_lossy(&bytes));
            (Case { text, win10, fg, bg, background, min_width, order }, removed)
        })
}

static DOCS: Mutex<Vec<(String, String)>> = Mutex::new(Vec::new());

fn run(args: &Args, rep: &mut Report) {
    let tier = args.tier;
    rep.assume("the text is recovered as an XML 1.0 reader recovers it: literal CR and CRLF are normalised to LF (2.11), character references are not");
    rep.assume("underline presence/kind is read from style rules that do not also set text-decoration-color (the colour rule itself carries text-decoration-line: underline)");
    rep.assume("the background row is compared cell by cell on lines of printable ASCII (one cell per character under any width measure); on other lines, where the cell count depends on the width tables, only the sequence of fills is compared");
    let cap = tier.pick(16_000usize, 20_000);
    rep.add(
        "generated-documents",
        false,
        "0..20 items of text / SGR / other sequences x palette x default colours x background",
        prop_par(
            "generated-documents",
            args.seed,
            tier.pick(15_000, 1_500_000),
            arb_case,
            |(case, removed), acc: &mut Acc| {
                let _ = removed;
                let doc = match rt::guarded(|| Ok(render(case))) {
                    Ok(d) => d,
                    Err(m) => return Verdict { result: Err(m), nontrivial: None },
                };
                {
                    let mut d = DOCS.lock().unwrap();
                    if d.len() < cap {
                        d.push((serde_json::to_string(case).unwrap(), doc.clone()));
                    }
                }
                match check_doc(case, &doc) {
                    Ok(nt) => Verdict::ok(nt.then(|| digest_str(&serde_json::to_string(case).unwrap()))),
                    Err(m) => Verdict { result: Err(format!("{m} [text {}]", esc(case.text.as_bytes()))), nontrivial: None },
                }
            },
            |(case, _)| serde_json::to_value(case).unwrap(),
        ),
    );
    // fixed corner cases
    let mut acc = Acc::new();
    let fixed = [
        "", "\n", "\n\n", "a", "a\n", "a\r\n", "a\r\nb", "\r\n", "a\rb", "a\r", "\x1b[1ma\r\x1b[0m\nb", "a\r\x1b[1m\n\x1b[31mb", "&<>\"'", "]]>", "\x1b[7mx\x1b[0my",
        "\x1b[41m \x1b[0m\n\x1b[7;32m&\x1b[m", "\x1b[38;5;1;48;2;3;4;5;58;5;6;4:3mz", "\t|\t", "漢字\x1b[44m😀\x1b[0m\u{301}", "\x1b[1m\x1b[0m", "\x1b[41m\n\x1b[0m", "a\x1b[1mb\r\x1b[0m\nc", "x\n\x1b[31my\r\x1b[39m\nz", "\r\x1b[1m\r\x1b[0m\n", "a\r\x1b[1m\x1b[3m\n", "X\x1b[1m\x1b[0mX", "[\x1b[32m#\x1b[0m\x1b[32m#\x1b[0m\x1b[32m#\x1b[0m]", "\x1b[7mX\x1b[0;30;47mX",
    ];
    let big: Vec<String> = vec![
        "a\n".repeat(255),
        "\n".repeat(256),
        "\x1b[31mr\x1b[0m\n".repeat(257),
        "x\r\n".repeat(1000) + "last",
        "\x1b[1m".to_owned() + &"w".repeat(70_000) + "\x1b[0m\nend",
        (0..300).map(|i| format!("\x1b[38;5;{}m{}\x1b[0m{}", i % 256, i, if i % 7 == 0 { "\n" } else { " " })).collect(),
    ];
    let fixed: Vec<&str> = fixed.iter().copied().chain(big.iter().map(|s| s.as_str())).collect();
    for t in fixed {
        for (win10, background) in [(false, true), (true, false)] {
            let case = Case { text: t.to_owned(), win10, fg: MColor::Ansi(7), bg: MColor::Idx(17), background, min_width: None, order: (t.len() % 120) as u8 };
            acc.eval();
            acc.nontrivial_distinct();
            let r = rt::guarded(|| {
                let doc = render(&case);
                DOCS.lock().unwrap().push((serde_json::to_string(&case).unwrap(), doc.clone()));
                check_doc(&case, &doc)
            });
            if let Err(m) = r {
                acc.fail("corner-cases", serde_json::to_value(&case).unwrap(), m);
                break;
            }
        }
    }
    acc.samples.push(json!({"text": "a\\r\\x1b[1m\\n\\x1b[31mb"}));
    rep.add("corner-cases", true, "28 hand-picked texts (empty, CR/LF placements, XML specials, invert, all colour slots) and 6 large ones (255 / 256 / 257 / 1001 lines, a 70 000-character line, 300 differently coloured spans) x 2 configurations", vec![acc]);

    // colour-class collisions: many RGB colours in one document whose components are chosen so
    // that unpadded / concatenated spellings of the class name would coincide
    const COMP: [u8; 12] = [0, 1, 2, 0x0a, 0x10, 0x11, 0x12, 0x1a, 0xa0, 0xa1, 0xaa, 111];
    let mut acc = Acc::new();
    'outer: for slot in ["38", "48", "58"] {
        for (a, b) in [(0usize, 1usize), (1, 2), (2, 0)] {
            // 12^3 colours, ordered so that neighbours differ in the (a, b) components first
            let mut text = String::new();
            let mut n = 0;
            for i in 0..COMP.len() {
                for j in 0..COMP.len() {
                    for k in 0..COMP.len() {
                        let mut c = [0u8; 3];
                        c[a] = COMP[k];
                        c[b] = COMP[j];
                        c[3 - a - b] = COMP[i];
                        text.push_str(&format!("\x1b[4;{slot};2;{};{};{}m{}", c[0], c[1], c[2], (b'a' + (n % 26) as u8) as char));
                        n += 1;
                        if n % 48 == 0 {
                            text.push('\n');
                        }
                    }
                }
            }
            for background in [true, false] {
                let case = Case { text: text.clone(), win10: false, fg: MColor::Rgb(1, 0x10, 0), bg: MColor::Rgb(0x11, 0, 0), background, min_width: Some(0), order: 77 };
                acc.eval();
                acc.nontrivial_distinct();
                let r = rt::guarded(|| {
                    let doc = render(&case);
                    check_doc(&case, &doc)
                });
                if let Err(m) = r {
                    acc.fail("colour-collisions", serde_json::to_value(&case).unwrap(), m);
                    break 'outer;
                }
            }
        }
    }
    acc.samples.push(json!({"text_prefix": "\\x1b[4;38;2;0;0;0ma\\x1b[4;38;2;1;0;0mb\\x1b[4;38;2;2;0;0mc...", "colours_per_document": 1728}));
    rep.add(
        "colour-collisions",
        true,
        "per colour slot {fg, bg, underline} x 3 component orders x background on/off: one document with all 12^3 RGB colours over components {0,1,2,0x0a,0x10,0x11,0x12,0x1a,0xa0,0xa1,0xaa,111} (values whose unpadded hex / decimal spellings concatenate ambiguously), RGB default colours",
        vec![acc],
    );

    // second opinion: expat
    let docs = std::mem::take(&mut *DOCS.lock().unwrap());
    let path = rt::tmp_dir().join(format!("c14-batch-{}.bin", std::process::id()));
    let mut blob = Vec::new();
    for (_, d) in &docs {
        blob.extend_from_slice(format!("{}\n", d.len()).as_bytes());
        blob.extend_from_slice(d.as_bytes());
    }
    let mut acc = Acc::new();
    let script = rt::verif_dir().join("scripts/expat_check.py");
    let out = std::fs::write(&path, &blob).ok().and_then(|_| {
        ["python3", "/usr/bin/python3", "python3-vt"].iter().find_map(|py| std::process::Command::new(py).arg(&script).arg(&path).output().ok().filter(|o| o.status.success()))
    });
    let _ = std::fs::remove_file(&path);
    match out.and_then(|o| serde_json::from_slice::<Value>(&o.stdout).ok()) {
        Some(v) => {
            acc.evals = v["checked"].as_u64().unwrap_or(0);
            acc.nontrivial_counted = acc.evals;
            acc.samples.push(json!({"documents_fed_to_expat": acc.evals}));
            if let Some(f) = v["failures"].as_array().and_then(|a| a.first()) {
                let idx = f[0].as_u64().unwrap_or(0) as usize;
                let case: Value = serde_json::from_str(&docs[idx].0).unwrap_or(Value::Null);
                acc.fail("expat-second-opinion", case, format!("expat rejects a document the renderer produced: {}", f[1]));
            }
            rep.add("expat-second-opinion", false, "every document of this run (capped) parsed by Python's expat", vec![acc]);
        }
        None => rep.note("python3/expat not available: second-opinion parse skipped"),
    }
}

fn replay(_sub: &str, case: &Value) -> Result<(), String> {
    let case: Case = serde_json::from_value(case.clone()).map_err(|e| format!("bad case: {e}"))?;
    let doc = render(&case);
    check_doc(&case, &doc).map(|_| ())
}

fn main() {
    rt::quiet_panics();
    rt::main("C14", RULE, run, &replay)
}
