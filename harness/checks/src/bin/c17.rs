//! C17 — ANSI fallback for coloured writes frames the data and reports true progress.
use anstyle_wincon::WinconStream as _;
use proptest::prelude::*;
use serde::{Deserialize, Serialize};
use serde_json::{json, Value};
use std::cell::RefCell;
use std::io::{ErrorKind, Read, Seek, Write};
use std::rc::Rc;
use vcore::drive::{prop_par, Verdict};
use vcore::gen::{self, StreamCfg};
use vcore::rt::{self, digest_str, esc, Acc, Args, Report};
use vcore::sgr::{self, MColor, MStyle, ANSI_COLORS};
use vcore::vt;

const RULE: &str = "Cases: (fg, bg) over all 17 x 17 pairs (None + 16 palette colours) x data (empty, plain text, escape-rich G-STREAM data up to a few KiB, printable runs of 64..200 KiB) x inner-writer plan: accept everything; accept only a prefix of the data (every prefix length for short data); fail with Interrupted/WouldBlock/Other at the k-th inner write, k = 1..=4; accept at most 1..9 bytes per inner write whatever it carries (codes, data, reset); through ansi::write_colored and WinconStream::write_colored on Vec<u8>, File, &mut dyn Write, Box<dyn Write>. Oracle: output = P . data[..n] . S where P consists solely of SGR sequences that set exactly (fg, bg) from the default state, S solely of SGR sequences restoring the default state, both empty when no colour is given; return value n = data bytes accepted; strip(output) == strip(data[..n]); on an injected error the call returns Err of that kind and the visible text of what was emitted is a prefix of the data's. Non-trivial = at least one colour and non-empty data (distinct by case).";

#[derive(Clone, Copy, Debug, Serialize, Deserialize, PartialEq)]
enum Plan {
    AcceptAll,
    /// the data write accepts only this many bytes
    DataPrefix(usize),
    /// the k-th inner write (1-based) fails with this kind (0 Interrupted, 1 WouldBlock, 2 Other)
    FailAt(usize, u8),
    /// every inner write - codes, data and reset alike - accepts at most this many bytes (>= 1): a
    /// legal, never-failing writer
    Trickle(usize),
}

#[derive(Clone, Debug, Serialize, Deserialize)]
struct Case {
    fg: Option<u8>,
    bg: Option<u8>,
    hex: String,
    plan: Plan,
    /// 0 ansi::write_colored(&mut W), 1 &mut dyn Write, 2 Box<dyn Write>, 3 Vec<u8>, 4 File
    target: u8,
}

fn kind_of(k: u8) -> ErrorKind {
    match k {
        0 => ErrorKind::Interrupted,
        1 => ErrorKind::WouldBlock,
        _ => ErrorKind::Other,
    }
}

struct PlanWriter {
    plan: Plan,
    calls: usize,
    out: Rc<RefCell<Vec<u8>>>,
    /// the data of the call under test: the data write is recognised by its content (the first
    /// call that offers exactly the data), not by its position, so that the check does not depend
    /// on how many inner writes carry the colour codes
    data: Vec<u8>,
    /// how many bytes of the data the writer has accepted so far (an implementation may offer the
    /// rest of the data again after a short count)
    data_pos: usize,
    /// what happened, for the oracle: was the planned fault injected, and on which kind of call
    log: Rc<RefCell<PlanLog>>,
}

#[derive(Default, Debug)]
struct PlanLog {
    injected: bool,
    injected_on_data: bool,
    data_call_seen: bool,
    /// data bytes accepted in total (counting writes that offered what was left of the data)
    data_accepted: usize,
    /// data bytes accepted by the first data write alone
    first_accepted: usize,
}

impl Write for PlanWriter {
    fn write(&mut self, buf: &[u8]) -> std::io::Result<usize> {
        self.calls += 1;
        // a data write offers the data, or - after a short count - what is left of it
        let is_data_call = !buf.is_empty() && self.data_pos < self.data.len() && buf == &self.data[self.data_pos..];
        let first_data_call = is_data_call && self.data_pos == 0;
        if let Plan::FailAt(k, kind) = self.plan {
            if self.calls == k {
                let mut l = self.log.borrow_mut();
                l.injected = true;
                l.injected_on_data = is_data_call;
                return Err(std::io::Error::new(kind_of(kind), "injected"));
            }
        }
        let n = match self.plan {
            // the planned short count applies to the first data write
            Plan::DataPrefix(n) if first_data_call => n.min(buf.len()),
            Plan::Trickle(k) => k.max(1).min(buf.len()),
            _ => buf.len(),
        };
        if is_data_call {
            self.data_pos += n;
            let mut l = self.log.borrow_mut();
            if first_data_call {
                l.first_accepted = n;
            }
            l.data_call_seen = true;
            l.data_accepted = self.data_pos;
        }
        self.out.borrow_mut().extend_from_slice(&buf[..n]);
        Ok(n)
    }
    fn flush(&mut self) -> std::io::Result<()> {
        Ok(())
    }
}

fn only_sgr(bytes: &[u8]) -> bool {
    vt::state_after(bytes) == vt::St::Ground && vt::events(bytes).iter().all(|e| sgr::sgr_groups(e).is_some())
}

/// find the framing: output = P . body . S
fn split_framing<'a>(output: &'a [u8], body: &[u8], want: MStyle) -> Result<(&'a [u8], &'a [u8]), String> {
    if output.len() < body.len() {
        return Err(format!("output {} is shorter than the data", esc(output)));
    }
    for p in 0..=(output.len() - body.len()) {
        if &output[p..p + body.len()] != body {
            continue;
        }
        let (pre, suf) = (&output[..p], &output[p + body.len()..]);
        if only_sgr(pre) && only_sgr(suf) && sgr::final_style(pre) == want {
            return Ok((pre, suf));
        }
    }
    Err(format!("output {} is not <codes for {}> . data . <reset>", esc(output), want.describe()))
}

fn check(case: &Case) -> Result<bool, String> {
    let data = rt::unhex(&case.hex);
    let fg = case.fg.map(|k| ANSI_COLORS[k as usize & 15]);
    let bg = case.bg.map(|k| ANSI_COLORS[k as usize & 15]);
    let want = MStyle { fg: case.fg.map(|k| MColor::Ansi(k & 15)), bg: case.bg.map(|k| MColor::Ansi(k & 15)), ..Default::default() };
    let coloured = fg.is_some() || bg.is_some();
    let out = Rc::new(RefCell::new(Vec::new()));
    let plog = Rc::new(RefCell::new(PlanLog::default()));
    let (res, output): (std::io::Result<usize>, Vec<u8>) = match case.target {
        3 => {
            let mut v: Vec<u8> = Vec::new();
            let r = v.write_colored(fg, bg, &data);
            (r, v)
        }
        4 => {
            let path = rt::tmp_dir().join(format!("c17-{}-{:?}.bin", std::process::id(), std::thread::current().id()));
            let mut f = std::fs::OpenOptions::new().create(true).truncate(true).read(true).write(true).open(&path).map_err(|e| format!("tmp file: {e}"))?;
            let r = f.write_colored(fg, bg, &data);
            let mut v = Vec::new();
            f.rewind().and_then(|_| f.read_to_end(&mut v)).map_err(|e| format!("read back: {e}"))?;
            let _ = std::fs::remove_file(&path);
            (r, v)
        }
        t => {
            let mut w = PlanWriter { plan: case.plan, calls: 0, out: out.clone(), data: data.clone(), data_pos: 0, log: plog.clone() };
            let r = match t {
                0 => anstyle_wincon::ansi::write_colored(&mut w, fg, bg, &data),
                1 => {
                    let d: &mut dyn Write = &mut w;
                    d.write_colored(fg, bg, &data)
                }
                _ => {
                    let mut b: Box<dyn Write> = Box::new(w);
                    b.write_colored(fg, bg, &data)
                }
            };
            let o = out.borrow().clone();
            (r, o)
        }
    };
    let plan = if case.target >= 3 { Plan::AcceptAll } else { case.plan };
    // the full framing, from a fault-free run on a Vec
    let full = {
        let mut v: Vec<u8> = Vec::new();
        anstyle_wincon::ansi::write_colored(&mut v, fg, bg, &data).map_err(|e| format!("fault-free run failed: {e}"))?;
        v
    };
    let plog = plog.borrow();
    // data that also occurs inside the colour codes cannot be told from them by content
    if !data.is_empty() && coloured && matches!(plan, Plan::DataPrefix(_) | Plan::FailAt(..) | Plan::Trickle(_)) && full.windows(data.len()).filter(|w| *w == data.as_slice()).count() > 1 {
        return Ok(false);
    }
    if let Plan::FailAt(k, kind) = plan {
        if plog.injected {
            // How the codes and the reset reach the writer (write_all, one write or several) is
            // not part of the property: an Interrupted answer may be retried (std's write_all
            // does) or surface. Every other kind must surface.
            let may_be_retried = kind_of(kind) == ErrorKind::Interrupted;
            match &res {
                Err(e) if e.kind() == kind_of(kind) => {
                    // What exactly has reached the writer when a write failed is not part of the
                    // property (an implementation may stop at once, or still try to emit the reset);
                    // but nothing other than codes and a prefix of the data may have been written
                    let seen = anstream::adapter::strip_bytes(&output).into_vec();
                    let all = anstream::adapter::strip_bytes(&data).into_vec();
                    if !(seen.len() <= all.len() && all[..seen.len()] == seen[..]) {
                        return Err(format!("after the failure the writer holds {} whose visible text is not a prefix of the data's {}", esc(&output), esc(&data)));
                    }
                    return Ok(coloured && !data.is_empty());
                }
                Ok(_) if may_be_retried => {}
                other => return Err(format!("inner write #{k} failed with {:?} but write_colored returned {:?}", kind_of(kind), other.as_ref().map_err(|e| e.kind()))),
            }
        }
    }
    let n = match res {
        Ok(n) => n,
        Err(e) => return Err(format!("write_colored failed with {:?} although no error was injected", e.kind())),
    };
    // The number of data bytes the writer accepted. With a scripted writer: what the first data
    // write took, or - when the implementation offers the rest of the data again - the total. (A
    // later write that happens to equal the rest of the data, e.g. the reset after data ending in
    // ESC[0m, is told apart by the framing check below, which is run with the returned count.)
    if case.target < 3 && plog.data_call_seen {
        if n != plog.first_accepted && n != plog.data_accepted {
            return Err(format!("write_colored returned {n} but the writer accepted {} of {} data bytes ({} in its first data write)", plog.data_accepted, data.len(), plog.first_accepted));
        }
    } else if n != data.len() {
        return Err(format!("write_colored returned {n} but the writer accepted all {} data bytes", data.len()));
    }
    let body = &data[..n];
    if !coloured {
        if output != body {
            return Err(format!("no colour requested but the output is {} for data {}", esc(&output), esc(body)));
        }
    } else {
        let (pre, suf) = split_framing(&output, body, want)?;
        if pre.is_empty() || suf.is_empty() {
            return Err(format!("colour requested but the framing is incomplete: {}", esc(&output)));
        }
        let mut both = pre.to_vec();
        both.extend_from_slice(suf);
        if !sgr::final_style(&both).is_plain() {
            return Err(format!("the trailing codes {} do not restore the default state", esc(suf)));
        }
        // plain-text data: the terminal shows it in exactly (fg, bg)
        if vt::visible(body) == body && vt::is_valid_utf8(body) {
            let shown = sgr::styled_chars(&output, vt::is_ws_control);
            if shown.iter().any(|(st, _)| *st != want) || shown.len() != std::str::from_utf8(body).unwrap().chars().count() {
                return Err(format!("interpreting {} does not show the data in [{}]", esc(&output), want.describe()));
            }
        }
    }
    if anstream::adapter::strip_bytes(&output).into_vec() != anstream::adapter::strip_bytes(body).into_vec() {
        return Err(format!("stripping {} does not give back the stripped data", esc(&output)));
    }
    Ok(coloured && !data.is_empty())
}

fn arb_data() -> BoxedStrategy<Vec<u8>> {
    prop_oneof![
        1 => Just(vec![]),
        3 => "[ -~]{1,20}".prop_map(String::into_bytes),
        2 => gen::text_utf8(),
        3 => gen::stream(StreamCfg { max_items: 8, ..StreamCfg::ALL }).prop_map(|i| gen::render(&i)),
        1 => gen::stream(StreamCfg { max_items: 300, ..StreamCfg::ALL }).prop_map(|i| gen::render(&i)),
    ]
    .boxed()
}

fn arb_case() -> impl Strategy<Value = Case> {
    (
        proptest::option::weighted(0.8, 0u8..16),
        proptest::option::weighted(0.6, 0u8..16),
        arb_data(),
        prop_oneof![
            3 => Just(Plan::AcceptAll),
            3 => any::<u16>().prop_map(|f| Plan::DataPrefix(f as usize)),
            3 => (1usize..=4, 0u8..3).prop_map(|(k, e)| Plan::FailAt(k, e)),
            2 => (1usize..=9).prop_map(Plan::Trickle),
        ],
        prop_oneof![3 => 0u8..3, 1 => Just(3u8), 1 => Just(4u8)],
    )
        .prop_map(|(fg, bg, data, plan, target)| {
            let plan = match plan {
                Plan::DataPrefix(f) => Plan::DataPrefix((f * (data.len() + 1)) >> 16),
                p => p,
            };
            Case { fg, bg, hex: rt::hex(&data), plan, target }
        })
}

/// data of 64 KiB and more (16-bit boundaries); accepted whole or up to a prefix around 64 KiB
fn arb_huge_case() -> impl Strategy<Value = Case> {
    (
        proptest::option::weighted(0.8, 0u8..16),
        proptest::option::weighted(0.6, 0u8..16),
        vcore::gen::huge_text(false),
        prop_oneof![
            3 => Just(Plan::AcceptAll),
            2 => prop::sample::select(vec![65_535usize, 65_536, 65_537, 70_000]).prop_map(Plan::DataPrefix),
            1 => any::<u16>().prop_map(|f| Plan::DataPrefix(f as usize)),
            1 => (1usize..=4, 0u8..3).prop_map(|(k, e)| Plan::FailAt(k, e)),
        ],
        prop_oneof![3 => 0u8..3, 1 => Just(3u8), 1 => Just(4u8)],
    )
        .prop_map(|(fg, bg, data, plan, target)| {
            let plan = match plan {
                Plan::DataPrefix(f) => Plan::DataPrefix(f.min(data.len())),
                p => p,
            };
            Case { fg, bg, hex: rt::hex(&data), plan, target }
        })
}

fn run(args: &Args, rep: &mut Report) {
    let tier = args.tier;
    rep.level("fault_enumeration");
    // exhaustive: 17x17 pairs x fixed data x every plan
    let datas: Vec<&[u8]> = vec![b"", b"x", b"hello", b"a\x1b[1mb\x1b[0m", "é\n".as_bytes(), b"\x1b[", b"\xff\x00"];
    let n = rt::workers();
    let accs = rt::par(n, |w| {
        let mut acc = Acc::new();
        for fgi in (0..17u8).filter(|f| *f as usize % n == w) {
            for bgi in 0..17u8 {
                for data in &datas {
                    let mut plans = vec![Plan::AcceptAll];
                    for p in 0..=data.len() {
                        plans.push(Plan::DataPrefix(p));
                    }
                    for k in 1..=4 {
                        for e in 0..3 {
                            plans.push(Plan::FailAt(k, e));
                        }
                    }
                    for k in [1usize, 2, 3, 4, 5, 7] {
                        plans.push(Plan::Trickle(k));
                    }
                    for plan in plans {
                        for target in 0..5u8 {
                            if target >= 3 && plan != Plan::AcceptAll {
                                continue;
                            }
                            if target == 4 && (fgi + bgi) % 5 != 0 {
                                continue; // files are slow: a fifth of the colour pairs
                            }
                            let case = Case { fg: (fgi < 16).then_some(fgi), bg: (bgi < 16).then_some(bgi), hex: rt::hex(data), plan, target };
                            acc.eval();
                            match rt::guarded(|| check(&case)) {
                                Ok(nt) => {
                                    if nt {
                                        acc.nontrivial_distinct();
                                        acc.sample(|| serde_json::to_value(&case).unwrap());
                                    }
                                }
                                Err(m) => {
                                    acc.fail("exhaustive-pairs-plans", serde_json::to_value(&case).unwrap(), m);
                                    return acc;
                                }
                            }
                        }
                    }
                }
            }
        }
        acc
    });
    rep.add("exhaustive-pairs-plans", true, "17 x 17 colour pairs x 7 data strings x {accept all, every data prefix, fail at inner write 1..4 with 3 kinds} x 5 targets", accs);
    rep.add(
        "generated-data",
        false,
        "random colour pair x generated data (plain, UTF-8, escape-rich, long) x random plan x target",
        prop_par(
            "generated-data",
            args.seed,
            tier.pick(40_000, 800_000),
            arb_case,
            |case, _: &mut Acc| match check(case) {
                Ok(nt) => Verdict::ok(nt.then(|| digest_str(&serde_json::to_string(case).unwrap()))),
                Err(m) => Verdict { result: Err(m), nontrivial: None },
            },
            |case| serde_json::to_value(case).unwrap(),
        ),
    );
    rep.add(
        "huge-data",
        false,
        "random colour pair x data of 64 KiB..200 KiB x {accept all, prefix of 65535/65536/65537/70000/random bytes, fail at inner write 1..4} x target",
        prop_par(
            "huge-data",
            args.seed,
            tier.pick(300, 20_000),
            arb_huge_case,
            |case, _: &mut Acc| match check(case) {
                Ok(nt) => Verdict::ok(nt.then(|| digest_str(&format!("{:?}{:?}{:?}{}{}", case.fg, case.bg, case.plan, case.target, case.hex.len())))),
                Err(m) => Verdict { result: Err(m), nontrivial: None },
            },
            |case| serde_json::to_value(case).unwrap(),
        ),
    );
    let mut acc = Acc::new();
    check_std_streams(&mut acc);
    rep.add("std-streams", true, "WinconStream for Stdout / StdoutLock / Stderr / StderrLock in a child process whose streams are pipes: 17 x 4 colour pairs each", vec![acc]);
}

fn replay(sub: &str, case: &Value) -> Result<(), String> {
    if sub == "std-streams" {
        let mut acc = Acc::new();
        check_std_streams(&mut acc);
        return match acc.failure {
            Some(f) => Err(f.message),
            None => Ok(()),
        };
    }
    let case: Case = serde_json::from_value(case.clone()).map_err(|e| format!("bad case: {e}"))?;
    check(&case).map(|_| ())
}

/// Child mode: exercises the `WinconStream` implementations for the process's
/// own stdout / stderr (and their locks), which cannot be observed in-process.
/// One line per call: `<k>|` framed-output `|<returned count>\n`.
fn std_child(which: &str) {
    let data: &[u8] = b"da\x1b[1mta";
    let mut k = 0;
    for fgi in 0..17u8 {
        for bgi in [0u8, 5, 12, 16] {
            let fg = (fgi < 16).then(|| ANSI_COLORS[fgi as usize]);
            let bg = (bgi < 16).then(|| ANSI_COLORS[bgi as usize]);
            macro_rules! go {
                ($s:expr) => {{
                    let mut s = $s;
                    let _ = write!(s, "{k}|");
                    let _ = s.flush();
                    let n = s.write_colored(fg, bg, data).unwrap_or(usize::MAX);
                    let _ = writeln!(s, "|{n}");
                    let _ = s.flush();
                }};
            }
            match which {
                "stdout" => go!(std::io::stdout()),
                "stdout-lock" => go!(std::io::stdout().lock()),
                "stderr" => go!(std::io::stderr()),
                _ => go!(std::io::stderr().lock()),
            }
            k += 1;
        }
    }
}

fn check_std_streams(acc: &mut Acc) {
    let exe = match std::env::current_exe() {
        Ok(e) => e,
        Err(_) => return,
    };
    let data: &[u8] = b"da\x1b[1mta";
    for which in ["stdout", "stdout-lock", "stderr", "stderr-lock"] {
        let out = match std::process::Command::new(&exe).arg("--std-child").arg(which).stdin(std::process::Stdio::null()).output() {
            Ok(o) if o.status.success() => o,
            _ => {
                acc.class("child-could-not-run");
                continue;
            }
        };
        let bytes = if which.starts_with("stdout") { out.stdout } else { out.stderr };
        let mut k = 0;
        let mut rest: &[u8] = &bytes;
        for fgi in 0..17u8 {
            for bgi in [0u8, 5, 12, 16] {
                acc.eval();
                let want = MStyle { fg: (fgi < 16).then_some(MColor::Ansi(fgi)), bg: (bgi < 16).then_some(MColor::Ansi(bgi)), ..Default::default() };
                let head = format!("{k}|").into_bytes();
                let tail = format!("|{}\n", data.len()).into_bytes();
                let r = (|| -> Result<(), String> {
                    let r0 = rest.strip_prefix(head.as_slice()).ok_or_else(|| format!("{which}: record {k} does not start where expected: {}", esc(&rest[..rest.len().min(40)])))?;
                    let end = r0.windows(tail.len()).position(|w| w == tail.as_slice()).ok_or_else(|| format!("{which}: record {k} has no '|{}' trailer (wrong count returned?): {}", data.len(), esc(&r0[..r0.len().min(60)])))?;
                    let framed = &r0[..end];
                    if want.is_plain() {
                        if framed != data {
                            return Err(format!("{which}: no colour requested but the output is {}", esc(framed)));
                        }
                    } else {
                        let (pre, suf) = split_framing(framed, data, want)?;
                        let mut both = pre.to_vec();
                        both.extend_from_slice(suf);
                        if pre.is_empty() || suf.is_empty() || !sgr::final_style(&both).is_plain() {
                            return Err(format!("{which}: framing of record {k} is wrong: {}", esc(framed)));
                        }
                    }
                    rest = &r0[end + tail.len()..];
                    Ok(())
                })();
                match r {
                    Ok(()) => {
                        if !want.is_plain() {
                            acc.nontrivial_distinct();
                        }
                    }
                    Err(m) => {
                        acc.fail("std-streams", json!({"which": which, "record": k}), m);
                        return;
                    }
                }
                k += 1;
            }
        }
    }
    acc.samples.push(json!({"stream": "stdout-lock", "records": 68}));
}

fn main() {
    let argv: Vec<String> = std::env::args().collect();
    if argv.get(1).map(|s| s.as_str()) == Some("--std-child") {
        std_child(argv.get(2).map(|s| s.as_str()).unwrap_or("stdout"));
        return;
    }
    rt::quiet_panics();
    rt::main("C17", RULE, run, &replay)
}
