//! C04 — no panic, overflow or memory error on any untrusted input.
//! The same phases run twice: in this build (debug assertions + overflow
//! checks) and in a child built with the `plain` profile (-O, no debug
//! assertions: the `unsafe from_utf8_unchecked` paths).
use checks::oracle::{robust, ROBUST_HEADER};
use proptest::prelude::*;
use serde_json::{json, Value};
use vcore::drive::{enum_par, prop_par, Verdict};
use vcore::gen::{self, StreamCfg};
use vcore::rt::{self, digest, Acc, Args, Report, Tier};

const RULE: &str = "One decoder turns a byte string into (chunk size, palette, colour, payload) and feeds the payload to every entry point listed in the property: Parser::advance, strip_bytes / StripBytes / StripStream (chunked), WinconBytes, strip_str / StripStr (lossy text, cut at character boundaries), Term::render_svg, to_roff().to_roff()/render(), anstyle_git::parse, anstyle_ls::parse (whole text and each word), all lossy conversions and Palette::get/Index with the decoded palette. Inputs: bounded-exhaustive byte strings over the class alphabet, seeded G-STREAM (all classes, short and long), style-syntax words and their mutations, arbitrary Unicode and arbitrary bytes. Run in two builds: debug-assertions + overflow-checks, and plain -O. Oracle: no panic; pieces are sub-slices and valid UTF-8; returned Strings are valid UTF-8 (checked on raw bytes); results in range. Thorough additionally runs the cargo-fuzz target 'robust' under AddressSanitizer (scripts/fuzz.sh). Non-trivial = non-empty payload containing a control byte or a non-ASCII byte, reaching at least two entry points (distinct by input bytes, counted per build).";

fn header(seed: u64) -> Vec<u8> {
    let mut h = Vec::with_capacity(ROBUST_HEADER);
    let mut x = seed;
    for _ in 0..ROBUST_HEADER {
        x = rt::mix(x);
        h.push(x as u8);
    }
    h
}

fn one(payload: &[u8]) -> Result<bool, String> {
    let mut data = header(digest(payload));
    data.extend_from_slice(payload);
    let reached = rt::guarded(|| robust(&data))?;
    let interesting = payload.iter().any(|b| *b < 0x20 || *b >= 0x7f);
    Ok(reached >= 2 && interesting && !payload.is_empty())
}

fn style_words() -> BoxedStrategy<Vec<u8>> {
    let word = prop_oneof![
        3 => prop::sample::select(vec!["red", "bold", "no-ul", "normal", "-1", "#fff", "#1a2b3c", "255", "256", "nobold", "#", "#ggg", "1;31", "38;5;200", "48;2;1;2;3", "0", "00", ";", "38", "38;5", "4:3", "\u{ff11}", "#é1", "#+1+2+3", "١", "999999999999999999999", "-0"]).prop_map(|s| s.to_owned()),
        1 => "[#0-9a-f;:+\\- ]{0,8}",
        1 => "\\PC{0,4}",
    ];
    proptest::collection::vec((word, prop::sample::select(vec![" ", ";", "\t", "\u{a0}", "", "\n"])), 0..6)
        .prop_map(|v| v.into_iter().map(|(w, s)| format!("{w}{s}")).collect::<String>().into_bytes())
        .boxed()
}

struct Sub {
    name: &'static str,
    exhaustive: bool,
    bound: String,
    accs: Vec<Acc>,
}

fn phases(seed: u64, tier: Tier) -> Vec<Sub> {
    let mut out = vec![];
    let full = gen::as_symbols(gen::ALPHA_FULL);
    let full: Vec<&[u8]> = full.iter().map(|v| v.as_slice()).collect();
    let lens: &[usize] = tier.pick(&[0, 1, 2, 3], &[0, 1, 2, 3, 4]);
    out.push(Sub {
        name: "enum-alphabet",
        exhaustive: true,
        bound: format!("all byte strings of lengths {:?} over {} class representatives", lens, full.len()),
        accs: enum_par("enum-alphabet", &full, lens, |s, acc| {
            if one(s)? {
                acc.nontrivial_distinct();
                acc.sample(|| vcore::drive::hex_case(s));
            }
            Ok(())
        }),
    });
    let body = |b: &Vec<u8>, _: &mut Acc| match one(b) {
        Ok(nt) => Verdict::ok(nt.then(|| digest(b))),
        Err(m) => Verdict { result: Err(m), nontrivial: None },
    };
    let tojson = |b: &Vec<u8>| vcore::drive::hex_case(b);
    let render = |s: BoxedStrategy<Vec<gen::Item>>| s.prop_map(|i| gen::render(&i));
    out.push(Sub {
        name: "grammar-streams",
        exhaustive: false,
        bound: "G-STREAM, all classes, 0..40 items".into(),
        accs: prop_par("grammar-streams", seed, tier.pick(25_000, 600_000), || render(gen::stream(StreamCfg::ALL)), body, tojson),
    });
    out.push(Sub {
        name: "grammar-long",
        exhaustive: false,
        bound: "G-STREAM up to 400 items (several KiB)".into(),
        accs: prop_par("grammar-long", seed, tier.pick(500, 15_000), || render(gen::stream(StreamCfg { max_items: 400, ..StreamCfg::ALL })), body, tojson),
    });
    out.push(Sub {
        name: "grammar-huge",
        exhaustive: false,
        bound: "G-STREAM (0..8 items) with one printable run of 64..200 KiB (16-bit length boundaries)".into(),
        accs: vcore::drive::huge_par("grammar-huge", seed, tier.pick(64, 3_000), StreamCfg::ALL, || Just(()), |b, _, _| match one(&b.to_vec()) {
            Ok(_) => Verdict::ok(Some(digest(b))),
            Err(m) => Verdict { result: Err(m), nontrivial: None },
        }, |_| Value::Null),
    });
    // string sequences whose fields end around the 16-bit boundaries (offsets kept in narrow
    // integers wrap there): OSC with 1..3 fields, DCS, SOS/PM/APC
    {
        let sizes = [1usize, 25_535, 40_000, 65_534, 65_535, 65_536, 65_537, 70_000];
        let mut inputs: Vec<Vec<u8>> = vec![];
        for a in sizes {
            for b in sizes {
                if a + b < 65_000 {
                    continue;
                }
                for term in [&b"\x07"[..], b"\x1b\\", b"\x18"] {
                    let mut v = b"\x1b]".to_vec();
                    v.extend(std::iter::repeat(b'a').take(a));
                    v.push(b';');
                    v.extend(std::iter::repeat(b'b').take(b));
                    v.extend_from_slice(term);
                    v.extend_from_slice(b"x\x1b[1my");
                    inputs.push(v);
                }
            }
            let mut v = b"\x1b]0;".to_vec();
            v.extend(std::iter::repeat(b'c').take(a));
            v.extend_from_slice(b";;");
            v.extend(std::iter::repeat(b'd').take(a));
            v.extend_from_slice(b"\x07\x1bP1;2q");
            v.extend(std::iter::repeat(b'e').take(a));
            v.extend_from_slice(b"\x1b\\\x1b_");
            v.extend(std::iter::repeat(b'f').take(a));
            v.extend_from_slice(b"\x1b\\z");
            inputs.push(v);
        }
        let mut acc = Acc::new();
        for i in &inputs {
            acc.eval();
            match rt::guarded(|| one(i)) {
                Ok(_) => {
                    acc.nontrivial_distinct();
                }
                Err(m) => {
                    acc.fail("string-fields-around-64k", json!({"hex_prefix": rt::hex(&i[..40]), "length": i.len(), "hex": rt::hex(i)}), m);
                    break;
                }
            }
        }
        acc.sample(|| json!({"shape": "ESC ] a x A ; b x B <BEL | ST | CAN> ...", "sizes": sizes.to_vec()}));
        out.push(Sub {
            name: "string-fields-around-64k",
            exhaustive: true,
            bound: format!("{} fixed inputs: OSC with two fields of 1 / 25535 / 40000 / 65534..65537 / 70000 bytes each (all pairs summing beyond 65000) x 3 terminators, and OSC + DCS + APC with payloads of those sizes", inputs.len()),
            accs: vec![acc],
        });
    }
    out.push(Sub {
        name: "style-words",
        exhaustive: false,
        bound: "git / LS_COLORS words, near misses, separators".into(),
        accs: prop_par("style-words", seed, tier.pick(25_000, 500_000), style_words, body, tojson),
    });
    out.push(Sub {
        name: "arbitrary",
        exhaustive: false,
        bound: "arbitrary Unicode strings and arbitrary byte strings".into(),
        accs: prop_par(
            "arbitrary",
            seed,
            tier.pick(25_000, 500_000),
            || prop_oneof![".{0,40}".prop_map(String::into_bytes), proptest::collection::vec(any::<u8>(), 0..200), proptest::collection::vec(prop::sample::select(gen::ALPHA_FULL.to_vec()), 0..60)],
            body,
            tojson,
        ),
    });
    out
}

fn plain_child(seed: u64, tier: Tier) {
    let subs = phases(seed, tier);
    let v: Vec<Value> = subs
        .into_iter()
        .map(|s| {
            let mut m = Acc::new();
            for a in s.accs {
                m.merge(a);
            }
            json!({"name": s.name, "exhaustive": s.exhaustive, "bound": s.bound, "evals": m.evals, "nontrivial": m.nontrivial_total(),
                   "classes": m.classes, "samples": m.samples, "failure": m.failure})
        })
        .collect();
    println!("{}", serde_json::to_string(&v).unwrap());
}

fn run(args: &Args, rep: &mut Report) {
    rep.assume("the plain -O build is the one in which anstream's from_utf8_unchecked paths are really taken; the checked build turns debug_assert!/overflow into panics");
    for s in phases(args.seed, args.tier) {
        rep.add(&format!("{}/checked-build", s.name), s.exhaustive, &s.bound, s.accs);
    }
    // the same phases in the plain -O build
    let exe = rt::verif_dir().join("target/plain/c04");
    if !exe.exists() {
        rep.inconclusive("plain-profile binary target/plain/c04 is missing (scripts/pre-c04.sh)");
        return;
    }
    let out = std::process::Command::new(&exe)
        .arg("--plain-child")
        .arg(args.tier.name())
        .env("VERIF_SEED", args.seed.to_string())
        .output();
    let out = match out {
        Ok(o) if o.status.success() => o,
        Ok(o) => {
            // the child died: that is a crash of the code under test in the -O build
            let mut acc = Acc::new();
            acc.eval();
            acc.fail("plain-build-crash", json!({"status": format!("{:?}", o.status), "stderr": String::from_utf8_lossy(&o.stderr).chars().take(400).collect::<String>()}), format!("the plain -O build terminated abnormally: {:?}", o.status));
            rep.add("plain-build-crash", false, "child process", vec![acc]);
            return;
        }
        Err(e) => {
            rep.inconclusive(&format!("cannot run the plain-profile binary: {e}"));
            return;
        }
    };
    let subs: Vec<Value> = serde_json::from_slice(out.stdout.split(|b| *b == b'\n').filter(|l| !l.is_empty()).last().unwrap_or(&[])).unwrap_or_default();
    if subs.is_empty() {
        rep.inconclusive("plain-profile child produced no summary");
        return;
    }
    for s in subs {
        let mut acc = Acc::new();
        acc.evals = s["evals"].as_u64().unwrap_or(0);
        acc.nontrivial_counted = s["nontrivial"].as_u64().unwrap_or(0);
        if let Some(c) = s["classes"].as_object() {
            for (k, v) in c {
                acc.class_n(k, v.as_u64().unwrap_or(0));
            }
        }
        if let Some(a) = s["samples"].as_array() {
            acc.samples = a.iter().take(2).cloned().collect();
        }
        if !s["failure"].is_null() {
            if let Ok(f) = serde_json::from_value::<rt::Failure>(s["failure"].clone()) {
                acc.fail(&format!("{}/plain-build", f.sub), f.case, format!("[plain -O build] {}", f.message));
            }
        }
        rep.add(&format!("{}/plain-build", s["name"].as_str().unwrap_or("?")), s["exhaustive"].as_bool().unwrap_or(false), s["bound"].as_str().unwrap_or(""), vec![acc]);
    }
    if args.tier == vcore::rt::Tier::Thorough {
        checks::fuzzrun::campaign(rep, args, "robust", 120000, checks::oracle::fuzz_robust);
    }
}

fn replay(_sub: &str, case: &Value) -> Result<(), String> {
    if _sub.starts_with("libfuzzer-") {
        return checks::oracle::fuzz_robust(&vcore::drive::case_bytes(case));
    }
    let payload = vcore::drive::case_bytes(case);
    one(&payload)?;
    // and in the plain build, when available
    let exe = rt::verif_dir().join("target/plain/c04");
    if exe.exists() && std::env::var_os("C04_NO_RECURSE").is_none() {
        let tmp = rt::tmp_dir().join(format!("c04-replay-{}.json", std::process::id()));
        let _ = std::fs::write(&tmp, serde_json::to_string(&json!({"subcheck": "replay", "case": case})).unwrap());
        let out = std::process::Command::new(&exe).arg("--replay").arg(&tmp).env("C04_NO_RECURSE", "1").output();
        let _ = std::fs::remove_file(&tmp);
        match out {
            Ok(o) if o.status.code() == Some(0) => {}
            Ok(o) => return Err(format!("[plain -O build] replay fails: {}", String::from_utf8_lossy(&o.stderr).chars().take(300).collect::<String>())),
            Err(_) => {}
        }
    }
    Ok(())
}

fn main() {
    rt::quiet_panics();
    let argv: Vec<String> = std::env::args().collect();
    if argv.get(1).map(|s| s.as_str()) == Some("--plain-child") {
        let tier = if argv.get(2).map(|s| s.as_str()) == Some("thorough") { Tier::Thorough } else { Tier::Quick };
        let seed = std::env::var("VERIF_SEED").ok().and_then(|s| s.parse().ok()).unwrap_or(0);
        plain_child(seed, tier);
        return;
    }
    rt::main("C04", RULE, run, &replay)
}
