//! C13 — Style, effects and colour values obey their algebra.
use anstyle::{Ansi256Color, AnsiColor, Color, Effects, RgbColor, Style};
use proptest::prelude::*;
use serde_json::{json, Value};
use vcore::drive::{prop_par, Verdict};
use vcore::rt::{self, digest_str, Acc, Args, Report};
use vcore::sgr::{self, MColor, MStyle, ANSI_COLORS, EFFECTS, EFFECT_NAMES};

const RULE: &str = "Exhaustive: all 4096 x 4096 ordered pairs of effect sets against a u16 bit-set model (insert, remove, set, contains, |, -, |=, -=, clear, is_plain, iteration order/contents through every Iterator consumption method, Debug text under a grid of width/fill/precision/# specs (on Effects and through Style), equality/ordering consistency); all 16 palette colours and all 256 indices for the colour laws. Random: styles x setter/operator sequences against a record model. Non-trivial pair = both operands non-empty and different (every pair is distinct by construction).";

fn e(bits: u16) -> Effects {
    sgr::to_effects(bits)
}
fn bits(x: Effects) -> u16 {
    sgr::from_effects(x)
}

/// unary laws of one effect set
fn check_unary(a: u16) -> Result<(), String> {
    let ea = e(a);
    if bits(ea) != a {
        return Err(format!("building {a:#014b} from the constants and reading it back gives {:#014b}", bits(ea)));
    }
    if ea.is_plain() != (a == 0) {
        return Err(format!("is_plain() of {a:#014b}"));
    }
    if bits(ea.clear()) != 0 || !ea.clear().is_plain() {
        return Err("clear() does not give the empty set".into());
    }
    if (a == 0) != (ea == Effects::new()) {
        return Err("equality with Effects::new()".into());
    }
    if Effects::default() != Effects::new() {
        return Err("Default != new()".into());
    }
    // iteration: members in declaration order
    let want: Vec<Effects> = (0..12).filter(|i| a >> i & 1 == 1).map(|i| EFFECTS[i]).collect();
    let got: Vec<Effects> = ea.iter().collect();
    if got != want {
        return Err(format!("iter() of {a:#014b} yields {:?}, expected {:?}", got, want));
    }
    // ... through every way the Iterator trait offers to consume it (an implementation may
    // override any provided method): nth, skip, step_by, count, last, fold, size_hint, and
    // a walk resumed after each of them
    let n = want.len();
    if ea.iter().count() != n || ea.iter().last() != want.last().copied() {
        return Err(format!("iter().count()/last() of {a:#014b}"));
    }
    let folded = ea.iter().fold(Vec::new(), |mut v, x| {
        v.push(x);
        v
    });
    if folded != want {
        return Err(format!("iter().fold() of {a:#014b} visits {:?}, expected {:?}", folded, want));
    }
    for k in 0..=n + 1 {
        let mut it = ea.iter();
        for _ in 0..k.min(n) {
            it.next();
        }
        let (lo, hi) = it.size_hint();
        let rest = n - k.min(n);
        if lo > rest || hi.map_or(false, |h| h < rest) {
            return Err(format!("iter() of {a:#014b} after {k} items: size_hint ({lo}, {hi:?}) excludes the {rest} remaining"));
        }
        // nth from every position, then the walk continues behind the returned member
        for j in 0..=n + 1 {
            let mut it2 = it.clone();
            let got = it2.nth(j);
            let pos = k.min(n) + j;
            if got != want.get(pos).copied() {
                return Err(format!("iter() of {a:#014b}: after {k} items nth({j}) gives {:?}, expected {:?}", got, want.get(pos)));
            }
            let tail: Vec<Effects> = it2.collect();
            let want_tail: &[Effects] = if pos < n { &want[pos + 1..] } else { &[] };
            if tail != want_tail {
                return Err(format!("iter() of {a:#014b}: after {k} items and nth({j}) the walk continues with {:?}, expected {:?}", tail, want_tail));
            }
        }
        let skipped: Vec<Effects> = ea.iter().skip(k).collect();
        if skipped != want[k.min(n)..] {
            return Err(format!("iter().skip({k}) of {a:#014b} yields {:?}, expected {:?}", skipped, &want[k.min(n)..]));
        }
        let stepped: Vec<Effects> = ea.iter().step_by(k + 1).collect();
        let want_stepped: Vec<Effects> = want.iter().copied().step_by(k + 1).collect();
        if stepped != want_stepped {
            return Err(format!("iter().step_by({}) of {a:#014b} yields {:?}, expected {:?}", k + 1, stepped, want_stepped));
        }
    }
    // Debug names exactly the members
    let names: Vec<&str> = (0..12).filter(|i| a >> i & 1 == 1).map(|i| EFFECT_NAMES[i]).collect();
    // (the punctuation around the names - `Effects(A | B)`, `Effects{A, B}`, ... - is not part of
    // the property: the plain spec is judged like the others below, by the names it contains)
    // ... under every formatting spec: whatever width, fill, precision or `#` does to the layout,
    // the upper-case words in the output must be the member names, each once, nothing cut short
    {
        let st = Style::new().effects(ea);
        let specs: [(&str, String, String); 10] = [
            ("{:?}", format!("{:?}", ea), format!("{:?}", st)),
            ("{:#?}", format!("{:#?}", ea), format!("{:#?}", st)),
            ("{:40?}", format!("{:40?}", ea), format!("{:40?}", st)),
            ("{:.0?}", format!("{:.0?}", ea), format!("{:.0?}", st)),
            ("{:.1?}", format!("{:.1?}", ea), format!("{:.1?}", st)),
            ("{:.3?}", format!("{:.3?}", ea), format!("{:.3?}", st)),
            ("{:.8?}", format!("{:.8?}", ea), format!("{:.8?}", st)),
            ("{:*^9.2?}", format!("{:*^9.2?}", ea), format!("{:*^9.2?}", st)),
            ("{:>#200.5?}", format!("{:>#200.5?}", ea), format!("{:>#200.5?}", st)),
            ("{:<1?}", format!("{:<1?}", ea), format!("{:<1?}", st)),
        ];
        for (spec, e_out, s_out) in &specs {
            for (what, out) in [("Effects", e_out), ("Style", s_out)] {
                let mut words: Vec<&str> = out.split(|c: char| !(c.is_ascii_uppercase() || c == '_')).filter(|w| w.len() >= 2).collect();
                words.sort();
                let mut want_words = names.clone();
                want_words.sort();
                if words != want_words {
                    return Err(format!("Debug of {what} {a:#014b} with {spec} is {out:?}: it names {:?}, the members are {:?}", words, want_words));
                }
            }
        }
    }
    // Style <-> Effects
    let st = Style::new().effects(ea);
    if st.get_effects() != ea || Style::from(ea) != st || !(st == ea) {
        return Err("Style::from(effects) / effects() / == Effects".into());
    }
    if st.is_plain() != (a == 0) {
        return Err("Style::is_plain with only effects".into());
    }
    let colored = st.fg_color(Some(Color::Ansi(AnsiColor::Red)));
    if colored == ea {
        return Err("a style with a colour compares equal to a bare Effects".into());
    }
    Ok(())
}

/// binary laws of a pair of effect sets
#[inline]
fn check_pair(a: u16, b: u16, ea: Effects, eb: Effects) -> Result<(), String> {
    let fail = |what: &str, got: u16, want: u16| -> Result<(), String> {
        Err(format!("{what}: a={a:#014b} b={b:#014b} gives {got:#014b}, set model {want:#014b}"))
    };
    let x = bits(ea.insert(eb));
    if x != a | b {
        return fail("insert", x, a | b);
    }
    let x = bits(ea.remove(eb));
    if x != a & !b {
        return fail("remove", x, a & !b);
    }
    let x = bits(ea | eb);
    if x != a | b {
        return fail("|", x, a | b);
    }
    let x = bits(ea - eb);
    if x != a & !b {
        return fail("-", x, a & !b);
    }
    let mut m = ea;
    m |= eb;
    if bits(m) != a | b {
        return fail("|=", bits(m), a | b);
    }
    let mut m = ea;
    m -= eb;
    if bits(m) != a & !b {
        return fail("-=", bits(m), a & !b);
    }
    let x = bits(ea.set(eb, true));
    if x != a | b {
        return fail("set(true)", x, a | b);
    }
    let x = bits(ea.set(eb, false));
    if x != a & !b {
        return fail("set(false)", x, a & !b);
    }
    if ea.contains(eb) != (a & b == b) {
        return Err(format!("contains: a={a:#014b} b={b:#014b} gives {}", ea.contains(eb)));
    }
    if (ea == eb) != (a == b) {
        return Err(format!("==: a={a:#014b} b={b:#014b}"));
    }
    // (`!=` is a method of its own - `PartialEq::ne` may be overridden: it must be the negation)
    #[allow(clippy::nonminimal_bool)]
    if (ea != eb) != (a != b) || ea.ne(&eb) != (a != b) {
        return Err(format!("Effects != Effects: a={a:#014b} b={b:#014b} gives {}", ea != eb));
    }
    // Style operators
    let st = Style::new().effects(ea);
    if bits((st | eb).get_effects()) != a | b || bits((st - eb).get_effects()) != a & !b {
        return Err(format!("Style | / - Effects: a={a:#014b} b={b:#014b}"));
    }
    if (st == eb) != (a == b) {
        return Err(format!("Style == Effects: a={a:#014b} b={b:#014b}"));
    }
    if (st != eb) != (a != b) || st.ne(&eb) != (a != b) {
        return Err(format!("Style != Effects: a={a:#014b} b={b:#014b} gives {} although == gives {}", st != eb, st == eb));
    }
    let st_b = Style::new().effects(eb);
    if (st == st_b) != (a == b) || (st != st_b) != (a != b) {
        return Err(format!("Style ==/!= Style: a={a:#014b} b={b:#014b}"));
    }
    // with a colour a style is never equal to a bare effects value, under either operator
    let colored = st.bg_color(Some(Color::Ansi(AnsiColor::Blue)));
    if colored == eb || !(colored != eb) {
        return Err(format!("a style with a colour compares equal to Effects (== {} / != {}): a={a:#014b} b={b:#014b}", colored == eb, colored != eb));
    }
    Ok(())
}

fn check_colors() -> Result<u64, String> {
    let mut n = 0;
    for (k, c) in ANSI_COLORS.iter().enumerate() {
        n += 1;
        let idx = Ansi256Color::from_ansi(*c);
        if idx.0 as usize != k || idx.index() as usize != k {
            return Err(format!("from_ansi({:?}) = {}", c, idx.0));
        }
        if idx.into_ansi() != Some(*c) {
            return Err(format!("into_ansi(from_ansi({:?})) = {:?}", c, idx.into_ansi()));
        }
        if Ansi256Color::from(*c) != idx {
            return Err("From<AnsiColor> for Ansi256Color differs from from_ansi".into());
        }
        if c.is_bright() != (k >= 8) {
            return Err(format!("is_bright({:?})", c));
        }
        for yes in [false, true] {
            let t = c.bright(yes);
            let tk = sgr::ansi_index(t) as usize;
            if tk % 8 != k % 8 {
                return Err(format!("bright({yes}) changes the hue of {:?} to {:?}", c, t));
            }
            if t.is_bright() != yes {
                return Err(format!("{:?}.bright({yes}).is_bright()", c));
            }
            if t.bright(yes) != t {
                return Err(format!("bright({yes}) is not idempotent on {:?}", c));
            }
        }
        if Color::from(*c) != Color::Ansi(*c) {
            return Err("From<AnsiColor> for Color".into());
        }
    }
    for i in 0..=255u8 {
        n += 1;
        let c = Ansi256Color(i);
        if c.index() != i || Ansi256Color::from(i) != c {
            return Err(format!("index()/From<u8> for {i}"));
        }
        match c.into_ansi() {
            Some(a) => {
                if i >= 16 || sgr::ansi_index(a) != i {
                    return Err(format!("Ansi256Color({i}).into_ansi() = {:?}", a));
                }
            }
            None => {
                if i < 16 {
                    return Err(format!("Ansi256Color({i}).into_ansi() = None"));
                }
            }
        }
        if Color::from(i) != Color::Ansi256(c) {
            return Err("From<u8> for Color".into());
        }
        let rgb = RgbColor(i, i.wrapping_mul(7), 255 - i);
        if (rgb.r(), rgb.g(), rgb.b()) != (i, i.wrapping_mul(7), 255 - i)
            || RgbColor::from((i, 3, 9)) != RgbColor(i, 3, 9)
            || Color::from((i, 3, 9)) != Color::Rgb(RgbColor(i, 3, 9))
        {
            return Err("RgbColor accessors / From".into());
        }
    }
    Ok(n)
}

#[derive(Clone, Debug)]
enum Op {
    Fg(Option<MColor>),
    Bg(Option<MColor>),
    Ul(Option<MColor>),
    Effects(u16),
    Conv(u8),
    Or(u16),
    Sub(u16),
    OrAssign(u16),
    SubAssign(u16),
}

fn arb_color() -> impl Strategy<Value = MColor> {
    prop_oneof![
        (0u8..16).prop_map(MColor::Ansi),
        any::<u8>().prop_map(MColor::Idx),
        (any::<u8>(), any::<u8>(), any::<u8>()).prop_map(|(r, g, b)| MColor::Rgb(r, g, b)),
    ]
}

fn arb_op() -> impl Strategy<Value = Op> {
    prop_oneof![
        proptest::option::of(arb_color()).prop_map(Op::Fg),
        proptest::option::of(arb_color()).prop_map(Op::Bg),
        proptest::option::of(arb_color()).prop_map(Op::Ul),
        (0u16..4096).prop_map(Op::Effects),
        (0u8..8).prop_map(Op::Conv),
        (0u16..4096).prop_map(Op::Or),
        (0u16..4096).prop_map(Op::Sub),
        (0u16..4096).prop_map(Op::OrAssign),
        (0u16..4096).prop_map(Op::SubAssign),
    ]
}

fn check_ops(ops: &[Op]) -> Result<(), String> {
    let mut real = Style::new();
    let mut model = MStyle::default();
    if Style::default() != Style::new() {
        return Err("Style::default() != Style::new()".into());
    }
    for (i, op) in ops.iter().enumerate() {
        match op {
            Op::Fg(c) => {
                real = real.fg_color(c.map(sgr::to_color));
                model.fg = *c;
            }
            Op::Bg(c) => {
                real = real.bg_color(c.map(sgr::to_color));
                model.bg = *c;
            }
            Op::Ul(c) => {
                real = real.underline_color(c.map(sgr::to_color));
                model.ul = *c;
            }
            Op::Effects(b) => {
                real = real.effects(e(*b));
                model.effects = *b;
            }
            Op::Conv(k) => {
                let (r, bit) = match k {
                    0 => (real.bold(), sgr::BOLD),
                    1 => (real.dimmed(), sgr::DIMMED),
                    2 => (real.italic(), sgr::ITALIC),
                    3 => (real.underline(), sgr::UNDERLINE),
                    4 => (real.blink(), sgr::BLINK),
                    5 => (real.invert(), sgr::INVERT),
                    6 => (real.hidden(), sgr::HIDDEN),
                    _ => (real.strikethrough(), sgr::STRIKETHROUGH),
                };
                real = r;
                model.effects |= bit;
            }
            Op::Or(b) => {
                real = real | e(*b);
                model.effects |= *b;
            }
            Op::Sub(b) => {
                real = real - e(*b);
                model.effects &= !*b;
            }
            Op::OrAssign(b) => {
                real |= e(*b);
                model.effects |= *b;
            }
            Op::SubAssign(b) => {
                real -= e(*b);
                model.effects &= !*b;
            }
        }
        let got = sgr::from_style(real);
        if got != model {
            return Err(format!(
                "after op #{i} {:?}: style is [{}], record model says [{}]",
                op,
                got.describe(),
                model.describe()
            ));
        }
        if real.is_plain() != model.is_plain() {
            return Err(format!("is_plain after op #{i}"));
        }
        let same_effects = real == real.get_effects();
        let no_colours = model.fg.is_none() && model.bg.is_none() && model.ul.is_none();
        if same_effects != no_colours {
            return Err(format!("Style == Effects after op #{i}: {same_effects}, colours absent: {no_colours}"));
        }
        if sgr::to_style(model) != real {
            return Err(format!("a style rebuilt from the getters is not equal after op #{i}"));
        }
    }
    Ok(())
}

fn ops_json(ops: &Vec<Op>) -> Value {
    json!(ops.iter().map(|o| format!("{:?}", o)).collect::<Vec<_>>())
}

fn run(args: &Args, rep: &mut Report) {
    let tier = args.tier;
    let n = rt::workers();
    let accs = rt::par(n, |w| {
        let mut acc = Acc::new();
        let all: Vec<Effects> = (0..4096u16).map(e).collect();
        for a in (0u16..4096).filter(|a| *a as usize % n == w) {
            if let Err(m) = rt::guarded(|| check_unary(a)) {
                acc.fail("effects-unary", json!({"a": a}), m);
                return acc;
            }
            let ea = all[a as usize];
            for b in 0u16..4096 {
                acc.evals += 1;
                if let Err(m) = check_pair(a, b, ea, all[b as usize]) {
                    acc.fail("effects-pairs", json!({"a": a, "b": b}), m);
                    return acc;
                }
                if a != 0 && b != 0 && a != b {
                    acc.nontrivial_counted += 1;
                }
            }
            acc.sample(|| json!({"a": format!("{:?}", ea), "b": "all 4096 sets"}));
        }
        acc
    });
    rep.add("effects-pairs", true, "all 4096 x 4096 ordered pairs (and 4096 unary checks)", accs);

    let mut acc = Acc::new();
    match rt::guarded(check_colors) {
        Ok(n) => {
            acc.evals = n;
            acc.nontrivial_counted = n;
            acc.samples.push(json!({"colour": "BrightBlue", "index": 12}));
        }
        Err(m) => acc.fail("colour-laws", json!({}), m),
    }
    // every (earlier value, later value) pair per colour slot: the getter returns the later one
    let colour_values: Vec<Option<Color>> = std::iter::once(None)
        .chain(ANSI_COLORS.iter().map(|c| Some(Color::Ansi(*c))))
        .chain((0..=255u8).map(|i| Some(Color::Ansi256(Ansi256Color(i)))))
        .chain([(0u8, 0u8, 0u8), (255, 255, 255), (128, 0, 0), (1, 2, 3)].into_iter().map(|(r, g, b)| Some(Color::Rgb(RgbColor(r, g, b)))))
        .collect();
    let accs_pairs = rt::par(3, |slot| {
        let mut acc = Acc::new();
        for old in &colour_values {
            for new in &colour_values {
                acc.eval();
                acc.nontrivial_distinct();
                let base = Style::new().bold().fg_color(Some(Color::Ansi(AnsiColor::Green))).bg_color(Some(Color::Ansi256(Ansi256Color(7)))).underline_color(Some(Color::Rgb(RgbColor(9, 9, 9))));
                let (st, got) = match slot {
                    0 => {
                        let s = base.fg_color(*old).fg_color(*new);
                        (s, s.get_fg_color())
                    }
                    1 => {
                        let s = base.bg_color(*old).bg_color(*new);
                        (s, s.get_bg_color())
                    }
                    _ => {
                        let s = base.underline_color(*old).underline_color(*new);
                        (s, s.get_underline_color())
                    }
                };
                let others_ok = st.get_effects() == Effects::BOLD
                    && (slot == 0 || st.get_fg_color() == Some(Color::Ansi(AnsiColor::Green)))
                    && (slot == 1 || st.get_bg_color() == Some(Color::Ansi256(Ansi256Color(7))))
                    && (slot == 2 || st.get_underline_color() == Some(Color::Rgb(RgbColor(9, 9, 9))));
                if got != *new || !others_ok {
                    acc.fail("setter-pairs", json!({"slot": slot, "old": format!("{:?}", old), "new": format!("{:?}", new)}), format!("slot {} set to {:?} and then to {:?}: the getter returns {:?} (other fields intact: {others_ok})", ["fg", "bg", "underline"][slot], old, new, got));
                    return acc;
                }
            }
        }
        acc.samples.push(json!({"slot": (["fg", "bg", "underline"][slot]), "old": "Ansi(Red)", "new": "Ansi256(1)"}));
        acc
    });
    rep.add("setter-pairs", true, "per colour slot every (earlier value, later value) pair over {None, 16 palette colours, 256 indices, 4 RGB values}: the getter returns the later value, the other fields stay", accs_pairs);
    rep.add("colour-laws", true, "all 16 palette colours, all 256 indices", vec![acc]);

    rep.add(
        "style-setter-sequences",
        false,
        "random sequences of 1..20 setter / convenience / operator calls against a record model",
        prop_par(
            "style-setter-sequences",
            args.seed,
            tier.pick(100_000, 8_000_000),
            || proptest::collection::vec(arb_op(), 1..20),
            |ops, _| match check_ops(ops) {
                Ok(()) => Verdict::ok((ops.len() >= 2).then(|| digest_str(&format!("{:?}", ops)))),
                Err(m) => Verdict { result: Err(m), nontrivial: None },
            },
            ops_json,
        ),
    );
}

fn parse_color(s: &str) -> Option<Option<MColor>> {
    // "None" | "Some(Ansi(3))" | "Some(Idx(7))" | "Some(Rgb(1, 2, 3))"
    if s == "None" {
        return Some(None);
    }
    let inner = s.strip_prefix("Some(")?.strip_suffix(')')?;
    let nums: Vec<u8> = inner
        .split(|c: char| !c.is_ascii_digit())
        .filter(|t| !t.is_empty())
        .filter_map(|t| t.parse().ok())
        .collect();
    if inner.starts_with("Ansi") {
        Some(Some(MColor::Ansi(*nums.first()?)))
    } else if inner.starts_with("Idx") {
        Some(Some(MColor::Idx(*nums.first()?)))
    } else if inner.starts_with("Rgb") && nums.len() == 3 {
        Some(Some(MColor::Rgb(nums[0], nums[1], nums[2])))
    } else {
        None
    }
}

fn parse_op(s: &str) -> Option<Op> {
    let (name, arg) = s.split_once('(')?;
    let arg = arg.strip_suffix(')')?;
    Some(match name {
        "Fg" => Op::Fg(parse_color(arg)?),
        "Bg" => Op::Bg(parse_color(arg)?),
        "Ul" => Op::Ul(parse_color(arg)?),
        "Effects" => Op::Effects(arg.parse().ok()?),
        "Conv" => Op::Conv(arg.parse().ok()?),
        "Or" => Op::Or(arg.parse().ok()?),
        "Sub" => Op::Sub(arg.parse().ok()?),
        "OrAssign" => Op::OrAssign(arg.parse().ok()?),
        "SubAssign" => Op::SubAssign(arg.parse().ok()?),
        _ => return None,
    })
}

fn replay(sub: &str, case: &Value) -> Result<(), String> {
    match sub {
        "effects-unary" => check_unary(case["a"].as_u64().unwrap_or(0) as u16 & 4095),
        "effects-pairs" => {
            let a = case["a"].as_u64().unwrap_or(0) as u16 & 4095;
            let b = case["b"].as_u64().unwrap_or(0) as u16 & 4095;
            check_unary(a)?;
            check_pair(a, b, e(a), e(b))
        }
        "colour-laws" => check_colors().map(|_| ()),
        _ => {
            let ops: Vec<Op> = case
                .as_array()
                .map(|a| a.iter().filter_map(|v| v.as_str()).filter_map(parse_op).collect())
                .unwrap_or_default();
            check_ops(&ops)
        }
    }
}

fn main() {
    rt::quiet_panics();
    rt::main("C13", RULE, run, &replay)
}
