//! C20 — parser feature configurations differ only by their documented limits.
#[path = "../../../c20fmt.rs"]
mod c20fmt;

use proptest::prelude::*;
use serde_json::{json, Value};
use vcore::drive::sample_values;
use vcore::gen::{self, StreamCfg};
use vcore::rt::{self, esc, Acc, Args, Report};
use vcore::vt::{self, Ev};

const RULE: &str = "Inputs: the 7-bit sub-language of the C02 grammar (text, controls, CSI with 0..40 parameters, ESC, OSC, DCS, SOS/PM/APC, truncated and embedded forms) and OSC payloads of 1000..1100 bytes with 0..20 separators placed at boundary positions (around 1023/1024/1025 and random), written to one file and parsed by four worker binaries built from the working tree with feature sets {utf8 (default), core, core+utf8, none}. Oracle: for every input whose OSC payloads (separators not counted) fit 1024 bytes all four event logs are identical (the default build is the base line; whether that base line follows the reference VT parser is C02's question and only counted here); for oversize payloads on the fixed-buffer builds: no panic, total reported payload <= 1024 bytes, every reported field equals or is a prefix of the corresponding field of the heap build, terminator flag equal, and every non-OSC event identical. Non-trivial = input contains an OSC (distinct by input); OSC within +-2 of the limit and oversize are counted as classes.";

const CONFIGS: [&str; 4] = ["default", "core", "core-utf8", "none"];
const LIMIT: usize = 1024;

fn model_log(bytes: &[u8]) -> String {
    vt::events(bytes)
        .iter()
        .map(|e| match e {
            Ev::Print(c) => c20fmt::print(*c),
            Ev::Exec(b) => c20fmt::exec(*b),
            Ev::Csi { groups, inter, ignore, fin } => c20fmt::csi(groups, inter, *ignore, *fin),
            Ev::Esc { inter, ignore, fin } => c20fmt::esc(inter, *ignore, *fin),
            Ev::Hook { groups, inter, ignore, fin } => c20fmt::hook(groups, inter, *ignore, *fin),
            Ev::Put(b) => c20fmt::put(*b),
            Ev::Unhook => c20fmt::unhook(),
            Ev::Osc { fields, bell } => c20fmt::osc(fields, *bell),
        })
        .collect::<Vec<_>>()
        .join(" ")
}

/// largest OSC payload (separators not counted) the reference machine collects
fn max_osc_payload(bytes: &[u8]) -> Option<usize> {
    let mut best = None;
    for e in vt::events(bytes) {
        if let Ev::Osc { .. } = e {
            best = Some(best.unwrap_or(0));
        }
    }
    if best.is_none() && vt::state_after(bytes) != vt::St::OscString {
        return None;
    }
    // measure raw payloads by scanning with the machine
    let mut m = vt::Machine::new();
    let mut cur = 0usize;
    let mut max = 0usize;
    for &b in bytes {
        let before = m.st;
        m.feed(b);
        if before == vt::St::OscString && m.st == vt::St::OscString {
            if b >= 0x20 && b != b';' {
                cur += 1;
                max = max.max(cur);
            }
        } else if m.st == vt::St::OscString && before != vt::St::OscString {
            cur = 0;
        }
    }
    Some(max)
}

fn parse_osc(tok: &str) -> Option<(Vec<String>, String)> {
    let inner = tok.strip_prefix("O[")?.strip_suffix(']')?;
    let (fields, bell) = inner.rsplit_once('|')?;
    Some((if fields.is_empty() { vec![String::new()] } else { fields.split(',').map(|s| s.to_owned()).collect() }, bell.to_owned()))
}

/// truncation predicate for oversize inputs
fn check_truncated(full: &str, fixed: &str) -> Result<(), String> {
    let a: Vec<&str> = full.split(' ').collect();
    let b: Vec<&str> = fixed.split(' ').collect();
    if a.len() != b.len() {
        return Err(format!("the fixed-buffer build reports {} events, the heap build {}", b.len(), a.len()));
    }
    for (x, y) in a.iter().zip(b.iter()) {
        if x.starts_with("O[") && y.starts_with("O[") {
            let (fx, bx) = parse_osc(x).ok_or("bad osc token")?;
            let (fy, by) = parse_osc(y).ok_or("bad osc token")?;
            if bx != by {
                return Err("OSC terminator flag differs".into());
            }
            if fy.len() > fx.len() {
                return Err(format!("fixed-buffer build reports {} OSC fields, heap build {}", fy.len(), fx.len()));
            }
            let total: usize = fy.iter().map(|f| f.len() / 2).sum();
            if total > LIMIT {
                return Err(format!("fixed-buffer build reports {total} payload bytes, the limit is {LIMIT}"));
            }
            for (i, (p, q)) in fx.iter().zip(fy.iter()).enumerate() {
                if !p.starts_with(q.as_str()) {
                    return Err(format!("OSC field #{i} of the fixed-buffer build is not a prefix of the full field"));
                }
            }
        } else if x != y {
            return Err(format!("event {y} differs from the heap build's {x}"));
        }
    }
    Ok(())
}

fn big_osc() -> impl Strategy<Value = Vec<u8>> {
    (
        1000usize..=1100,
        proptest::collection::vec(prop_oneof![3 => prop::sample::select(vec![0usize, 1, 1022, 1023, 1024, 1025, 1026]), 2 => 0usize..1110], 0..=20),
        prop::sample::select(vec![&b"\x07"[..], b"\x1b\\", b"\x18", b""]),
        "[ -~]{0,6}",
        "[ -~]{0,6}",
        prop::sample::select(vec![b'a', b'0', b'~', b' ']),
    )
        .prop_map(|(len, seps, term, before, after, fill)| {
            // payload of `len` non-separator bytes with separators inserted before the given payload offsets
            let mut seps = seps;
            seps.sort();
            let mut v = before.into_bytes();
            v.extend_from_slice(b"\x1b]");
            let mut si = 0;
            for i in 0..len {
                while si < seps.len() && seps[si] <= i {
                    v.push(b';');
                    si += 1;
                }
                v.push(if fill == b'0' { b'0' + (i % 10) as u8 } else { fill });
            }
            while si < seps.len() {
                v.push(b';');
                si += 1;
            }
            v.extend_from_slice(term);
            v.extend(after.into_bytes());
            v.extend_from_slice(b"\x1b[1;2mz\x1b]0;t\x07");
            v
        })
}

fn worker_path(cfg: &str) -> std::path::PathBuf {
    rt::verif_dir().join("target/c20").join(cfg).join("release/c20worker")
}

fn run_workers(inputs: &[Vec<u8>]) -> Result<Vec<Vec<String>>, String> {
    let path = rt::tmp_dir().join(format!("c20-inputs-{}.txt", std::process::id()));
    let mut text = String::new();
    for i in inputs {
        text.push_str(&rt::hex(i));
        text.push('\n');
    }
    std::fs::write(&path, text).map_err(|e| format!("write inputs: {e}"))?;
    let outs: Vec<Result<Vec<String>, String>> = rt::par(CONFIGS.len(), |k| {
        let exe = worker_path(CONFIGS[k]);
        let out = std::process::Command::new(&exe).arg(&path).output().map_err(|e| format!("cannot run {}: {e}", exe.display()))?;
        if !out.status.success() {
            return Err(format!("worker {} exited with {:?}", CONFIGS[k], out.status));
        }
        let lines: Vec<String> = String::from_utf8_lossy(&out.stdout).lines().map(|l| l.to_owned()).collect();
        if lines.len() != inputs.len() {
            return Err(format!("worker {} produced {} logs for {} inputs", CONFIGS[k], lines.len(), inputs.len()));
        }
        Ok(lines)
    });
    let _ = std::fs::remove_file(&path);
    outs.into_iter().collect()
}

fn judge(input: &[u8], logs: &[&str; 4], acc: &mut Acc) -> Result<bool, String> {
    for (k, l) in logs.iter().enumerate() {
        if let Some(m) = l.strip_prefix("PANIC:") {
            return Err(format!("the {} build panicked on {}: {m}", CONFIGS[k], esc(input)));
        }
    }
    let payload = max_osc_payload(input);
    // The property compares the configurations with EACH OTHER (whether they all follow the state
    // machine is C02's business): the default build is the base line. The reference parser is
    // only consulted for the evidence (how often the base line agrees with it).
    if logs[0] != model_log(input) {
        acc.class("all-configurations-differ-from-the-reference-parser-alike(C02's business)");
    }
    let model = logs[0].to_owned();
    match payload {
        Some(n) if n > LIMIT => {
            acc.class("osc-oversize");
            // heap builds: identical
            for k in [0usize, 3] {
                if logs[k] != model {
                    return Err(format!("{} build differs from the default build on {}", CONFIGS[k], esc(&input[..input.len().min(80)])));
                }
            }
            for k in [1usize, 2] {
                check_truncated(logs[0], logs[k]).map_err(|e| format!("{} build, oversize OSC ({n} bytes): {e}", CONFIGS[k]))?;
            }
        }
        _ => {
            if let Some(n) = payload {
                if n + 2 >= LIMIT {
                    acc.class("osc-within-2-of-limit");
                }
            }
            for k in 0..4 {
                if logs[k] != model {
                    let a: Vec<&str> = logs[k].split(' ').collect();
                    let b: Vec<&str> = model.split(' ').collect();
                    let i = a.iter().zip(b.iter()).position(|(x, y)| x != y).unwrap_or(a.len().min(b.len()));
                    return Err(format!(
                        "{} build: event #{i} is {:?}, the default build reports {:?} (all configurations must be identical) for input {}",
                        CONFIGS[k],
                        a.get(i),
                        b.get(i),
                        esc(&input[..input.len().min(120)])
                    ));
                }
            }
        }
    }
    Ok(payload.is_some())
}

fn run(args: &Args, rep: &mut Report) {
    let tier = args.tier;
    for c in CONFIGS {
        if !worker_path(c).exists() {
            rep.inconclusive(&format!("worker binary for feature set '{c}' is missing (scripts/pre-c20.sh)"));
            return;
        }
    }
    let seven = |v: Vec<u8>| -> Vec<u8> { v.into_iter().map(|b| if b >= 0x80 { b'~' } else { b }).collect() };
    let n_grammar = tier.pick(20_000, 300_000);
    let n_big = tier.pick(3_000, 40_000);
    let nw = rt::workers();
    let mut inputs: Vec<Vec<u8>> = rt::par(nw, |w| {
        sample_values(rt::derive_seed(args.seed, "grammar", w), n_grammar / nw, &gen::stream(StreamCfg { max_items: 30, ..StreamCfg::SEVEN_BIT }))
            .into_iter()
            .map(|items| seven(gen::render(&items)))
            .collect::<Vec<_>>()
    })
    .into_iter()
    .flatten()
    .collect();
    let n_g = inputs.len();
    inputs.extend(sample_values(rt::derive_seed(args.seed, "big-osc", 0), n_big, &big_osc()));
    // fixed boundary inputs
    for len in [1022usize, 1023, 1024, 1025, 1026, 2048, 5000, 65_535, 65_536, 65_537, 70_000] {
        for seps in [0usize, 1, 15, 16, 17, 40] {
            let mut v = b"\x1b]".to_vec();
            for i in 0..len {
                if seps > 0 && i % (len / seps.min(len)).max(1) == 0 && i > 0 {
                    v.push(b';');
                }
                v.push(b'a' + (i % 26) as u8);
            }
            v.extend_from_slice(b"\x07after\x1b[5n");
            inputs.push(v);
        }
    }
    // text runs and a DCS payload beyond 64 KiB, each followed by ordinary sequences
    for len in [65_535usize, 65_536, 65_537, 131_073] {
        let mut v = b"\x1b[1m".to_vec();
        v.extend(std::iter::repeat(b'x').take(len));
        v.extend_from_slice(b"\x1b]0;t\x07\x1b[0my");
        inputs.push(v);
        let mut v = b"\x1bP1;2q".to_vec();
        v.extend((0..len).map(|i| b'a' + (i % 26) as u8));
        v.extend_from_slice(b"\x1b\\z\x1b]k;v\x1b\\");
        inputs.push(v);
    }
    let logs = match run_workers(&inputs) {
        Ok(l) => l,
        Err(m) => {
            rep.inconclusive(&m);
            return;
        }
    };
    let mut parts = [(0usize, n_g, "grammar-7bit", "7-bit G-STREAM inputs"), (n_g, inputs.len(), "boundary-osc", "OSC payloads of 1000..1100 bytes with separators at boundary positions + fixed boundary inputs (payloads of 1022..1026, 2048, 5000 and 65535..70000 bytes x 0..40 separators; text runs and DCS payloads of 65535..131073 bytes)")];
    for (lo, hi, name, bound) in parts.iter_mut() {
        let mut acc = Acc::new();
        let mut seen = std::collections::HashSet::new();
        for i in *lo..*hi {
            acc.eval();
            let l = [logs[0][i].as_str(), logs[1][i].as_str(), logs[2][i].as_str(), logs[3][i].as_str()];
            match rt::guarded(|| judge(&inputs[i], &l, &mut acc)) {
                Ok(nt) => {
                    if nt && seen.insert(rt::digest(&inputs[i])) {
                        acc.nontrivial_distinct();
                        acc.sample(|| json!({"input": esc(&inputs[i][..inputs[i].len().min(100)]), "len": inputs[i].len()}));
                    }
                }
                Err(m) => {
                    // shrink with a bounded number of worker invocations (4 processes each)
                    let budget = std::cell::Cell::new(200u32);
                    let min = vcore::drive::shrink_bytes(&inputs[i], |c| {
                        if budget.get() == 0 {
                            return false;
                        }
                        budget.set(budget.get() - 1);
                        match run_workers(&[c.to_vec()]) {
                            Ok(l) => {
                                let l = [l[0][0].as_str(), l[1][0].as_str(), l[2][0].as_str(), l[3][0].as_str()];
                                rt::guarded(|| judge(c, &l, &mut Acc::new())).is_err()
                            }
                            Err(_) => false,
                        }
                    });
                    let msg = match run_workers(&[min.clone()]) {
                        Ok(l) => {
                            let l = [l[0][0].as_str(), l[1][0].as_str(), l[2][0].as_str(), l[3][0].as_str()];
                            rt::guarded(|| judge(&min, &l, &mut Acc::new())).err().unwrap_or(m)
                        }
                        Err(_) => m,
                    };
                    acc.fail(name, json!({"hex": rt::hex(&min), "text": esc(&min)}), msg);
                    break;
                }
            }
        }
        rep.add(name, false, bound, vec![acc]);
    }
}

fn replay(_sub: &str, case: &Value) -> Result<(), String> {
    let input = vcore::drive::case_bytes(case);
    let logs = run_workers(&[input.clone()])?;
    let l = [logs[0][0].as_str(), logs[1][0].as_str(), logs[2][0].as_str(), logs[3][0].as_str()];
    judge(&input, &l, &mut Acc::new()).map(|_| ())
}

fn main() {
    rt::quiet_panics();
    rt::main("C20", RULE, run, &replay)
}
