//! C11 — the git colour parser accepts exactly git's syntax and denotes the right style.
use proptest::prelude::*;
use serde_json::{json, Value};
use vcore::drive::{enum_strings, prop_par, Verdict};
use vcore::rt::{self, digest_str, Acc, Args, Report};
use vcore::sgr::{self, MColor, MStyle};

const RULE: &str = "Inputs: exhaustively all 1- and 2-word (thorough: 3-word) descriptions over a 60-word vocabulary (names, normal, -1, attributes with no/no- prefixes, numbers, hex colours, near misses) and all '#'+3 and '#'+6 strings over {0 9 a f A F g G + - space e-acute}; grammar-generated descriptions of 0..6 words, and long ones of 15..1027 words around powers of two, in random order with random ASCII case and ASCII/Unicode white space; words glued together from 2..4 valid pieces (stacked negation prefixes, doubled attributes); single-edit mutations of valid descriptions (insert/delete/replace, incl. multi-byte characters inside hex words); arbitrary Unicode. Oracle: a reference parser written from the syntax in the property (Result<style, (error kind, word)>; when a description has several offending words the error may name any of them, correctly classified), and parse(print(style)) == style for every expressible style. Excluded (undetermined by the statement, counted): decimal numbers with an explicit '+'. Non-trivial = at least 2 words, or a '#' word, or an input the reference rejects (distinct by input string).";

#[derive(Debug, PartialEq, Eq, Clone)]
enum RefErr {
    Extra(String),
    Unknown(String),
}

const ATTRS: [(&str, u16); 7] = [
    ("bold", sgr::BOLD),
    ("dim", sgr::DIMMED),
    ("ul", sgr::UNDERLINE),
    ("blink", sgr::BLINK),
    ("reverse", sgr::INVERT),
    ("italic", sgr::ITALIC),
    ("strike", sgr::STRIKETHROUGH),
];
const NAMES: [&str; 8] = ["black", "red", "green", "yellow", "blue", "magenta", "cyan", "white"];

fn ref_color(lw: &str) -> Option<Option<MColor>> {
    if lw == "normal" || lw == "-1" {
        return Some(None);
    }
    if let Some(i) = NAMES.iter().position(|n| *n == lw) {
        return Some(Some(MColor::Ansi(i as u8)));
    }
    if let Some(hex) = lw.strip_prefix('#') {
        let digits: Option<Vec<u8>> = hex.chars().map(|c| c.to_digit(16).filter(|_| c.is_ascii()).map(|d| d as u8)).collect();
        let d = digits?;
        return match d.len() {
            3 => Some(Some(MColor::Rgb(d[0], d[1], d[2]))),
            6 => Some(Some(MColor::Rgb(d[0] * 16 + d[1], d[2] * 16 + d[3], d[4] * 16 + d[5]))),
            _ => None,
        };
    }
    if !lw.is_empty() && lw.bytes().all(|b| b.is_ascii_digit()) {
        let t = lw.trim_start_matches('0');
        if t.len() > 3 {
            return None;
        }
        let v: u32 = if t.is_empty() { 0 } else { t.parse().ok()? };
        if v <= 255 {
            return Some(Some(MColor::Idx(v as u8)));
        }
    }
    None
}

fn reference(s: &str) -> Result<MStyle, RefErr> {
    let mut st = MStyle::default();
    let mut colors = 0;
    for word in s.split(char::is_whitespace).filter(|w| !w.is_empty()) {
        let lw = word.to_ascii_lowercase();
        let (neg, base) = if let Some(b) = lw.strip_prefix("no-") {
            (true, b)
        } else if let Some(b) = lw.strip_prefix("no") {
            (true, b)
        } else {
            (false, lw.as_str())
        };
        if let Some((_, bit)) = ATTRS.iter().find(|(n, _)| *n == base) {
            if neg {
                st.effects &= !bit;
            } else {
                st.effects |= bit;
            }
            continue;
        }
        match ref_color(&lw) {
            Some(c) => {
                match colors {
                    0 => st.fg = c,
                    1 => st.bg = c,
                    _ => return Err(RefErr::Extra(word.to_owned())),
                }
                colors += 1;
            }
            None => return Err(RefErr::Unknown(word.to_owned())),
        }
    }
    Ok(st)
}

/// every word of a description that is an offender on its own account: each unknown word, and each
/// colour word after the second colour. When a description has several, the property does not say
/// which of them the error names.
fn offenders(s: &str) -> Vec<RefErr> {
    let mut out = vec![];
    let mut colors = 0;
    for word in s.split(char::is_whitespace).filter(|w| !w.is_empty()) {
        let lw = word.to_ascii_lowercase();
        let base = lw.strip_prefix("no-").or_else(|| lw.strip_prefix("no")).unwrap_or(lw.as_str());
        if ATTRS.iter().any(|(n, _)| *n == base) {
            continue;
        }
        match ref_color(&lw) {
            Some(_) => {
                if colors >= 2 {
                    out.push(RefErr::Extra(word.to_owned()));
                }
                colors += 1;
            }
            None => out.push(RefErr::Unknown(word.to_owned())),
        }
    }
    out
}

/// undetermined by the statement: skip
fn excluded(s: &str) -> Option<&'static str> {
    for w in s.split(char::is_whitespace) {
        if let Some(rest) = w.strip_prefix('+') {
            if !rest.is_empty() && rest.bytes().all(|b| b.is_ascii_digit()) {
                return Some("explicit-plus-number");
            }
        }
    }
    None
}

fn check(s: &str) -> Result<bool, String> {
    let want = reference(s);
    let got = anstyle_git::parse(s);
    let words = s.split(char::is_whitespace).filter(|w| !w.is_empty()).count();
    let nontrivial = words >= 2 || s.contains('#') || want.is_err();
    match (&got, &want) {
        (Ok(g), Ok(w)) => {
            let gm = sgr::from_style(*g);
            // (the number k < 16 and the k-th palette colour are the same colour)
            if gm.canon() != w.canon() {
                return Err(format!("parse({s:?}) = [{}], the words denote [{}]", gm.describe(), w.describe()));
            }
        }
        (Err(e), Err(w)) => {
            let _ = w;
            // the error must name an offending word with its right classification; with several
            // offenders any one of them (the leftmost is what `reference` reports in messages)
            let all = offenders(s);
            let (kind_ok, word, style) = match e {
                anstyle_git::Error::ExtraColor { style, word } => (all.iter().any(|o| matches!(o, RefErr::Extra(x) if x == word)), word.clone(), style.clone()),
                anstyle_git::Error::UnknownWord { style, word } => (all.iter().any(|o| matches!(o, RefErr::Unknown(x) if x == word)), word.clone(), style.clone()),
                _ => (false, String::new(), String::new()),
            };
            if !kind_ok {
                return Err(format!("parse({s:?}) failed with {:?}, expected {:?}", e, w));
            }
            // the `style` field (the description the error quotes) is not pinned by the property beyond
            // being about this description: it must contain the word it complains about
            if !style.contains(&word) {
                return Err(format!("error for {s:?} quotes the style as {style:?}, which does not contain the word {word:?}"));
            }
            let msg = e.to_string();
            // (the message may show the word as it is or in an escaped spelling - the structured
            // `word` field above is what "names that word")
            let esc_dbg: String = word.escape_debug().collect();
            let esc_def: String = word.escape_default().collect();
            let dbg = format!("{word:?}");
            let dbg_inner = &dbg[1..dbg.len() - 1];
            if !msg.contains(&word) && !msg.contains(&esc_dbg) && !msg.contains(&esc_def) && !msg.contains(dbg_inner) {
                return Err(format!("error message {msg:?} does not name the word {word:?}"));
            }
        }
        (Ok(g), Err(w)) => {
            return Err(format!("parse({s:?}) accepted it as [{}], the syntax rejects it: {:?}", sgr::from_style(*g).describe(), w));
        }
        (Err(e), Ok(w)) => {
            return Err(format!("parse({s:?}) rejected it with {:?}, the words denote [{}]", e, w.describe()));
        }
    }
    Ok(nontrivial)
}

fn print_color(c: Option<MColor>) -> String {
    match c {
        None => "normal".to_owned(),
        Some(MColor::Ansi(k)) => NAMES[k as usize & 7].to_owned(),
        Some(MColor::Idx(n)) => n.to_string(),
        Some(MColor::Rgb(r, g, b)) => format!("#{r:02x}{g:02x}{b:02x}"),
    }
}

/// printer for expressible styles
fn print_style(m: &MStyle, variant: u8) -> String {
    let mut words = vec![];
    if m.fg.is_some() || m.bg.is_some() {
        words.push(print_color(m.fg));
    }
    if m.bg.is_some() {
        words.push(print_color(m.bg));
    }
    for (n, bit) in ATTRS {
        if m.effects & bit != 0 {
            words.push(n.to_owned());
        }
    }
    match variant % 3 {
        0 => words.join(" "),
        1 => words.iter().rev().cloned().collect::<Vec<_>>().join("\t").replace("normal", "NORMAL"), // colours swap!
        _ => format!("  {}  ", words.join("  ").to_uppercase()),
    }
}

fn check_roundtrip(m: &MStyle, variant: u8) -> Result<(), String> {
    // variant 1 reverses the word order, which would swap fg and bg: only use it when there is at most one colour word
    let two_colours = m.bg.is_some();
    let v = if variant % 3 == 1 && two_colours { 0 } else { variant };
    let text = print_style(m, v);
    match anstyle_git::parse(&text) {
        Ok(st) if sgr::from_style(st).canon() == m.canon() => Ok(()),
        Ok(st) => Err(format!("[{}] printed as {text:?} parses back as [{}]", m.describe(), sgr::from_style(st).describe())),
        Err(e) => Err(format!("[{}] printed as {text:?} is rejected: {e}", m.describe())),
    }
}

fn vocabulary() -> Vec<String> {
    let mut v: Vec<String> = NAMES.iter().map(|s| s.to_string()).collect();
    v.push("normal".into());
    v.push("-1".into());
    for (a, _) in ATTRS {
        v.push(a.to_string());
        v.push(format!("no{a}"));
        v.push(format!("no-{a}"));
    }
    for w in [
        "0", "7", "8", "15", "16", "255", "256", "007", "0255", "999", "-0", "-2", "0x10", "1.0", "#000", "#fff", "#1a2b3c", "#ABCDEF", "#ffff", "#12345", "#ggg", "#", "Bold", "RED", "no", "no-", "nored", "no-normal", "brightred", "default", "reset", "bold,", "ul;", "é", "257", "65543", "4294967303", "18446744073709551623", "nonobold", "no-no-ul", "no-nodim", "nono-italic", "boldbold", "redbold", "no-red", "nonormal", "no--bold", "no-7",
    ] {
        v.push(w.to_string());
    }
    v
}

const WS: &[&str] = &[" ", "  ", "\t", "\n", "\r\n", "\u{0b}", "\u{0c}", "\u{85}", "\u{a0}", "\u{1680}", "\u{2003}", "\u{2028}", "\u{2029}", "\u{202f}", "\u{205f}", "\u{3000}"];

fn arb_valid_word() -> BoxedStrategy<String> {
    prop_oneof![
        3 => prop::sample::select(NAMES.to_vec()).prop_map(|s| s.to_owned()),
        1 => Just("normal".to_owned()),
        1 => Just("-1".to_owned()),
        4 => (prop::sample::select(ATTRS.iter().map(|a| a.0).collect::<Vec<_>>()), prop::sample::select(vec!["", "no", "no-"])).prop_map(|(a, p)| format!("{p}{a}")),
        2 => (0u16..=255, 0usize..3).prop_map(|(n, z)| format!("{}{}", "0".repeat(z), n)),
        2 => "#[0-9a-fA-F]{3}",
        2 => "#[0-9a-fA-F]{6}",
    ]
    .boxed()
}

fn random_case(s: &str, mask: u64) -> String {
    s.chars().enumerate().map(|(i, c)| if mask >> (i % 64) & 1 == 1 { c.to_ascii_uppercase() } else { c }).collect()
}

/// keywords with a letter replaced by a non-ASCII character whose Unicode
/// lower-casing is that letter (U+212A KELVIN SIGN -> k) or upper-casing
/// (U+017F LONG S -> S, U+0131 DOTLESS I -> I): not letter-case variants in
/// git's (ASCII) sense, must be rejected
fn arb_lookalike() -> BoxedStrategy<String> {
    (prop::sample::select(vec!["black", "blink", "strike", "nostrike", "no-blink", "Black", "BLINK", "italic", "bold", "reverse", "white", "dim"]), prop::sample::select(vec![" red", "", " 7", " bold"]), any::<bool>())
        .prop_map(|(w, rest, front)| {
            let t: String = w.chars().map(|c| match c { 'k' | 'K' => '\u{212a}', 's' => '\u{17f}', 'i' => '\u{131}', c => c }).collect();
            if front { format!("{t}{rest}") } else { format!("{}{t}", rest.trim_start().to_owned() + " ") }
        })
        .boxed()
}

fn arb_description() -> BoxedStrategy<String> {
    (proptest::collection::vec((arb_valid_word(), any::<u64>(), prop::sample::select(WS.to_vec())), 0..=6), prop::sample::select(vec!["", " ", "\t", "\u{a0}"]))
        .prop_map(|(words, lead)| {
            let mut s = lead.to_owned();
            for (w, mask, sep) in words {
                s.push_str(&random_case(&w, mask));
                s.push_str(sep);
            }
            s
        })
        .boxed()
}

/// long descriptions: many attribute words (which never exhaust a slot) with up to two colours
/// somewhere and a deciding last word, at lengths around powers of two
fn arb_long() -> BoxedStrategy<String> {
    let attr = || (prop::sample::select(ATTRS.iter().map(|a| a.0).collect::<Vec<_>>()), prop::sample::select(vec!["", "no", "no-"])).prop_map(|(a, p)| format!("{p}{a}"));
    let colour = || prop_oneof![prop::sample::select(NAMES.to_vec()).prop_map(|s| s.to_owned()), (0u16..=255).prop_map(|n| n.to_string()), "#[0-9a-f]{6}", Just("normal".to_owned())];
    let last = prop_oneof![3 => attr(), 3 => colour(), 1 => Just("bogus".to_owned()), 1 => Just("256".to_owned()), 1 => Just("#12".to_owned())];
    (
        prop::sample::select(vec![15usize, 16, 17, 31, 32, 33, 63, 64, 65, 127, 128, 129, 255, 256, 257, 300, 1023, 1024, 1025]),
        0usize..=2,
        proptest::collection::vec(attr(), 8..=24),
        proptest::collection::vec((colour(), any::<prop::sample::Index>()), 0..=2),
        last,
        prop::sample::select(WS.to_vec()),
    )
        .prop_map(|(len, extra, pool, colours, last, sep)| {
            let n = len + extra - 1;
            let mut words: Vec<String> = (0..n).map(|i| pool[(i * 7 + i / pool.len()) % pool.len()].clone()).collect();
            for (c, ix) in colours {
                let p = ix.index(n);
                words[p] = c;
            }
            words.push(last);
            words.join(sep)
        })
        .boxed()
}

/// words glued together from valid pieces without white space: stacked negation prefixes
/// (`nonobold`, `no-no-ul`), doubled attributes, a prefix in front of a colour, two valid words
fn arb_compound() -> BoxedStrategy<String> {
    let piece = || {
        prop_oneof![
            4 => prop::sample::select(vec!["no", "no-", "No", "NO-"]).prop_map(|s| s.to_owned()),
            4 => prop::sample::select(ATTRS.iter().map(|a| a.0).collect::<Vec<_>>()).prop_map(|s| s.to_owned()),
            2 => prop::sample::select(NAMES.to_vec()).prop_map(|s| s.to_owned()),
            1 => prop::sample::select(vec!["normal", "-1", "7", "#fff", "-"]).prop_map(|s| s.to_owned()),
        ]
    };
    (proptest::collection::vec(piece(), 2..=4), any::<u64>(), prop::sample::select(vec!["", "red ", "bold ", "red blue "]), prop::sample::select(vec!["", " ul", " 7"]))
        .prop_map(|(pieces, mask, before, after)| format!("{before}{}{after}", random_case(&pieces.concat(), mask)))
        .boxed()
}

fn arb_mutated() -> BoxedStrategy<String> {
    (arb_description(), any::<prop::sample::Index>(), 0u8..3, prop::sample::select(vec!['+', '-', '#', ' ', 'x', 'g', '0', '9', 'é', 'ß', '\u{ff10}', '\u{0661}', '\u{130}', '\u{212a}', '\u{17f}', '\u{3000}', ',', 'N', 'o', '\u{200b}', '😀']))
        .prop_map(|(s, ix, kind, ch)| {
            let bounds: Vec<usize> = (0..=s.len()).filter(|i| s.is_char_boundary(*i)).collect();
            let p = bounds[ix.index(bounds.len())];
            let mut t = s.clone();
            match kind {
                0 => t.insert(p, ch),
                1 => {
                    if p < t.len() {
                        t.remove(p);
                    }
                }
                _ => {
                    if p < t.len() {
                        t.remove(p);
                    }
                    t.insert(p, ch);
                }
            }
            t
        })
        .boxed()
}

fn arb_expressible() -> impl Strategy<Value = (MStyle, u8)> {
    let col = || {
        prop_oneof![
            2 => Just(None),
            2 => (0u8..8).prop_map(|k| Some(MColor::Ansi(k))),
            2 => any::<u8>().prop_map(|n| Some(MColor::Idx(n))),
            2 => (any::<u8>(), any::<u8>(), any::<u8>()).prop_map(|(r, g, b)| Some(MColor::Rgb(r, g, b))),
        ]
    };
    (col(), col(), proptest::collection::vec(0usize..7, 0..7), any::<u8>()).prop_map(|(fg, bg, attrs, v)| {
        let mut e = 0;
        for a in attrs {
            e |= ATTRS[a].1;
        }
        (MStyle { fg, bg, ul: None, effects: e }, v)
    })
}

fn str_body(s: &str, acc: &mut Acc) -> Result<bool, String> {
    if let Some(why) = excluded(s) {
        acc.class(&format!("excluded:{why}"));
        return Ok(false);
    }
    check(s)
}

fn run(args: &Args, rep: &mut Report) {
    let tier = args.tier;
    rep.assume("'#rgb' denotes the three digit values themselves (RGB(0xc,0xb,0xa) for #cba), as the crate's own pinned tests state; git >= 2.46 reads #cba as #ccbbaa - the property does not decide this");
    rep.assume("decimal numbers may carry leading zeros; an explicit '+' is excluded as undetermined; letter case is ASCII letter case as in git (strcasecmp)");
    let n = rt::workers();
    // (a) vocabulary words
    let vocab = vocabulary();
    let syms: Vec<Vec<u8>> = vocab.iter().map(|w| format!("{w} ").into_bytes()).collect();
    let syms: Vec<&[u8]> = syms.iter().map(|v| v.as_slice()).collect();
    let mut all = vec![];
    for len in 0..=tier.pick(2usize, 3) {
        let accs = rt::par(n, |w| {
            let mut acc = Acc::new();
            enum_strings(&syms, len, w, n, |b| {
                let s = std::str::from_utf8(b).unwrap();
                acc.eval();
                match rt::guarded(|| str_body(s, &mut acc)) {
                    Ok(nt) => {
                        if nt {
                            acc.nontrivial_distinct();
                            acc.sample(|| json!(s));
                        }
                        true
                    }
                    Err(m) => {
                        acc.fail("vocabulary-words", json!(s), m);
                        false
                    }
                }
            });
            acc
        });
        all.extend(accs);
    }
    rep.add("vocabulary-words", true, &format!("all descriptions of 0..={} words over a {}-word vocabulary", tier.pick(2, 3), vocab.len()), all);

    // '#' words
    let hexsyms: Vec<&[u8]> = vec![b"0", b"9", b"a", b"f", b"A", b"F", b"g", b"G", b"+", b"-", b" ", "é".as_bytes()];
    let mut all = vec![];
    for len in [3usize, 6] {
        let accs = rt::par(n, |w| {
            let mut acc = Acc::new();
            enum_strings(&hexsyms, len, w, n, |b| {
                let s = format!("#{}", std::str::from_utf8(b).unwrap());
                for text in [s.clone(), format!("red {s}"), format!("{s} bold")] {
                    acc.eval();
                    match rt::guarded(|| str_body(&text, &mut acc)) {
                        Ok(nt) => {
                            if nt {
                                acc.nontrivial_distinct();
                                acc.sample(|| json!(text));
                            }
                        }
                        Err(m) => {
                            acc.fail("hash-words", json!(text), m);
                            return false;
                        }
                    }
                }
                true
            });
            acc
        });
        all.extend(accs);
    }
    rep.add("hash-words", true, "all '#'+3 and '#'+6 strings over a 12-symbol hex/non-hex alphabet, alone and next to other words", all);

    let sbody = |s: &String, acc: &mut Acc| match str_body(s, acc) {
        Ok(nt) => Verdict::ok(nt.then(|| digest_str(s))),
        Err(m) => Verdict { result: Err(m), nontrivial: None },
    };
    rep.add("valid-descriptions", false, "0..6 valid words, random order / ASCII case / ASCII+Unicode white space",
        prop_par("valid-descriptions", args.seed, tier.pick(60_000, 10_000_000), arb_description, sbody, |s| json!(s)));
    rep.add("long-descriptions", false, "15..1027 words (lengths around powers of two): attribute words with up to two colours anywhere and a deciding last word (attribute, negation, colour, unknown word)",
        prop_par("long-descriptions", args.seed, tier.pick(8_000, 400_000), arb_long, sbody, |s| json!(s)));
    // words far longer than any keyword: a word is judged as a whole, whatever its length
    {
        let lens = [11usize, 13, 15, 16, 17, 18, 31, 32, 33, 63, 64, 65, 255, 256, 257, 1025];
        let mut words: Vec<String> = vec![];
        for &k in &lens {
            for n in ["0", "7", "15", "16", "255", "256", "25", "1"] {
                let z = "0".repeat(k.saturating_sub(n.len()));
                words.push(format!("{z}{n}")); // zero-padded number of total length k
                for tail in ["x", "abc", "7", "é", "-", "#"] {
                    words.push(format!("{z}{n}{tail}"));
                }
            }
            for kw in ["red", "bold", "nobold", "no-ul", "normal", "-1", "strike"] {
                words.push(format!("{kw}{}", "x".repeat(k)));
                words.push(format!("{}{kw}", "x".repeat(k)));
                words.push(format!("{kw}{}", kw.repeat(k / kw.len().max(1))));
            }
            words.push(format!("#{}", "f".repeat(k)));
            words.push(format!("#{}g", "a".repeat(k)));
        }
        let mut acc = Acc::new();
        'lw: for w in &words {
            for ctx in ["{}", "red {}", "bold {} ul", "{} blue", "red blue {}"] {
                let text = ctx.replace("{}", w);
                acc.eval();
                match rt::guarded(|| str_body(&text, &mut acc)) {
                    Ok(_) => {
                        acc.nontrivial_distinct();
                    }
                    Err(m) => {
                        acc.fail("long-words", json!(text), m);
                        break 'lw;
                    }
                }
            }
        }
        acc.sample(|| json!(format!("{}7abc", "0".repeat(15))));
        rep.add("long-words", true, &format!("{} words of 11..1025 bytes (zero-padded numbers with and without a trailing character, keywords with long tails or heads, repeated keywords, over-long '#' words) x 5 contexts", words.len()), vec![acc]);
    }
    rep.add("compound-words", false, "2..4 valid pieces (negation prefixes, attributes, colour names, numbers) glued together without white space, alone and next to valid words",
        prop_par("compound-words", args.seed, tier.pick(40_000, 2_000_000), arb_compound, sbody, |s| json!(s)));
    rep.add("single-edit-mutations", false, "one insert/delete/replace at a character boundary of a valid description",
        prop_par("single-edit-mutations", args.seed, tier.pick(100_000, 8_000_000), arb_mutated, sbody, |s| json!(s)));
    rep.add("unicode-lookalikes", false, "keywords with U+212A / U+017F / U+0131 in place of k / s / i",
        prop_par("unicode-lookalikes", args.seed, tier.pick(5_000, 50_000), arb_lookalike, sbody, |s| json!(s)));
    rep.add("arbitrary-unicode", false, "arbitrary Unicode strings (incl. control characters)",
        prop_par("arbitrary-unicode", args.seed, tier.pick(30_000, 5_000_000), || prop_oneof![".{0,12}", "[#0-9a-fA-F +\\-é\u{3000}]{0,10}", "\\PC{0,8}"], sbody, |s| json!(s)));
    rep.add("print-parse-roundtrip", false, "expressible styles (no underline colour, no bright palette colours, 7 attributes) printed in 3 spellings",
        prop_par("print-parse-roundtrip", args.seed, tier.pick(60_000, 1_000_000), arb_expressible,
            |(m, v), _| match check_roundtrip(m, *v) {
                Ok(()) => Verdict::ok((!m.is_plain()).then(|| digest_str(&format!("{}{}", m.describe(), v % 3)))),
                Err(e) => Verdict { result: Err(e), nontrivial: None },
            },
            |(m, v)| json!({"style": m, "variant": v})));
}

fn replay(sub: &str, case: &Value) -> Result<(), String> {
    if sub == "print-parse-roundtrip" {
        let m: MStyle = serde_json::from_value(case["style"].clone()).map_err(|e| format!("bad case: {e}"))?;
        return check_roundtrip(&m, case["variant"].as_u64().unwrap_or(0) as u8);
    }
    let s = case.as_str().ok_or("bad case")?;
    check(s).map(|_| ())
}

fn main() {
    rt::quiet_panics();
    rt::main("C11", RULE, run, &replay)
}
