//! C07 — styled-run extraction follows standard SGR semantics.
use checks::oracle::{check_stream, first_diff, real_chars};
use proptest::prelude::*;
use serde_json::{json, Value};
use vcore::drive::{prop_par, Verdict};
use vcore::gen::{self, Item, SgrStreamCfg};
use vcore::rt::{self, digest, esc, Acc, Args, Report};
use vcore::sgr::{self};
use vcore::vt::{self, St};

const RULE: &str = "Exhaustive: every SGR sequence of 1..3 attribute groups over the representative group set, from the default state and from a non-default base style, each followed by text. Generated: valid-UTF-8 streams of text, whitespace/C0 controls, G-SGR sequences (1..8 groups, <= 32 values; ';' and ':' spellings; 4:n; empty; leading zeros; unknown codes) and non-SGR sequences (other CSI finals, CSI m with private marker/intermediate, OSC, DCS, ESC, SOS/PM/APC), fed whole and in generated chunks. Extended colours with an index or component above 255 (exhaustive family): the colour must change nothing, or the value saturate. Oracles: (1) per-character (style, char) == reference SGR interpreter over the reference VT parser; (2) combined sequence == the same groups sent as separate sequences (extractor only); (3) stream with all non-SGR sequences deleted gives the same result. Non-trivial = a sequence with >= 2 groups, an extended colour or 4:n, followed by visible text; distinct by stream bytes.";

/// representative attribute groups for the exhaustive part
const REP_GROUPS: &[&str] = &[
    "", "0", "1", "2", "3", "4", "7", "8", "9", "21", "30", "31", "34", "37", "39", "40", "41",
    "47", "49", "90", "94", "97", "100", "104", "107", "01", "004", "0031", "38;5;1", "38;5;196",
    "38:5:196", "38;5;4", "38;5;38", "48;5;0", "48:5:255", "48;5;5", "58;5;4", "58:5:21",
    "38;2;1;2;3", "38:2:1:2:3", "38;2;5;5;5", "38;2;38;5;1", "48;2;0;0;0", "48:2:255:255:255",
    "58;2;4;5;38", "58:2:30:1:0", "38:2::1:2:3", "48:2:0:4:5:6", "58:2:1:7:8:9", "4:0", "4:1", "4:2", "4:3", "4:4", "4:5", "10", "26", "53",
    "99", "108", "256", "65535",
    // ':' groups are self-delimited: one with an unknown colour model names nothing and must not
    // reach into the following parameters (audit wave 2, F28)
    "38:1", "48:3:1:2:3", "38:4:0:1:2:3:4", "58:0", "38:9:5",
    // ITU T.416: the colour-space form may carry further fields after r:g:b (tolerance, ...)
    "38:2::255:0:0::0", "48:2:1:2:3:4:5", "58:2::7:8:9:0:1:2",
    // an index followed by further sub-parameters
    "38:5:9:1",
    // truncated ':' forms (what they denote is left open: only oracle 2, combined == separate)
    "38:5", "48:2", "58:2:1:2",
];

/// groups whose denotation the reference interpreter does not decide (only the metamorphic oracle)
const UNDECIDED_GROUPS: &[&str] = &["38:5", "48:2", "58:2:1:2"];






/// is the stream non-trivial: an SGR sequence with >= 2 groups / extended
/// colour / 4:n that is followed by visible text
fn nontrivial(bytes: &[u8]) -> bool {
    let ev = vt::events(bytes);
    let mut rich_at = None;
    for (i, e) in ev.iter().enumerate() {
        if let Some(g) = sgr::sgr_groups(e) {
            if g.len() >= 2 || g.iter().any(|x| x.len() > 1) {
                rich_at = Some(i);
                break;
            }
        }
    }
    match rich_at {
        Some(i) => ev[i..].iter().any(|e| matches!(e, vt::Ev::Print(_))),
        None => false,
    }
}

fn seq(groups: &[&str]) -> Vec<u8> {
    format!("\x1b[{}m", groups.join(";")).into_bytes()
}

const BASE: &[u8] = b"\x1b[1;3;9;38;5;9;48;2;1;2;3;58;5;200mB";

/// exhaustive part: one combined sequence, checked against the model and
/// against the separate spelling
fn check_groups(groups: &[&str], with_base: bool) -> Result<Option<bool>, String> {
    // the property's domain ends at 32 parameter values per sequence (sub-parameters count): a
    // longer combined sequence is dropped as a whole by the parser, its separate spelling is not
    let values: usize = groups.iter().map(|g| g.split([';', ':']).count()).sum();
    if values > 32 {
        return Ok(None);
    }
    let mut a = if with_base { BASE.to_vec() } else { vec![] };
    a.extend(seq(groups));
    a.extend_from_slice(b"x\xc3\xa9");
    if !groups.iter().any(|g| UNDECIDED_GROUPS.contains(g)) {
        check_stream(&a, &[])?;
    }
    // oracle 2: separate sequences, extractor against itself
    let mut b = if with_base { BASE.to_vec() } else { vec![] };
    for g in groups {
        b.extend(seq(&[g]));
    }
    b.extend_from_slice(b"x\xc3\xa9");
    let ra = real_chars(&[&a]);
    let rb = real_chars(&[&b]);
    if ra != rb {
        return Err(format!(
            "combined {} gives [{}] but separate {} gives [{}]",
            esc(&a),
            ra.last().map(|x| x.0.describe()).unwrap_or_default(),
            esc(&b),
            rb.last().map(|x| x.0.describe()).unwrap_or_default()
        ));
    }
    Ok(Some(groups.len() >= 2 || groups[0].contains([';', ':'])))
}

/// Extended colours with an index / component above 255 (`spec` is the text between `CSI` and
/// `m`): such a value names no colour of the style type. Terminals either ignore the colour
/// (xterm, VTE) or saturate the value; both readings of the reference interpreter are accepted,
/// anything else - e.g. wrapping 257 round to palette colour 1 - is a violation.
fn check_out_of_range(stream: &[u8]) -> Result<(), String> {
    let ignore = sgr::with_out_of_range(sgr::OutOfRange::Ignore, || checks::oracle::model_chars(stream));
    let saturate = sgr::with_out_of_range(sgr::OutOfRange::Saturate, || checks::oracle::model_chars(stream));
    let bytewise: Vec<&[u8]> = stream.chunks(1).collect();
    for (how, real) in [("whole", real_chars(&[stream])), ("byte by byte", real_chars(&bytewise))] {
        if real != ignore && real != saturate {
            let d = first_diff(&real, &ignore).unwrap_or_default();
            return Err(format!(
                "{} fed {how}: a colour value above 255 must change nothing (or saturate at 255); against the 'changes nothing' reading: {d}",
                esc(stream)
            ));
        }
    }
    Ok(())
}

fn out_of_range_streams() -> Vec<Vec<u8>> {
    const BIG: &[&str] = &["256", "257", "258", "263", "264", "265", "271", "272", "300", "0300", "511", "512", "513", "1000", "4097", "32768", "65535", "65536", "99999"];
    const SMALL: &[&str] = &["0", "7", "255"];
    let mut specs: Vec<String> = vec![];
    for t in ["38", "48", "58"] {
        for v in BIG {
            specs.push(format!("{t};5;{v}"));
            specs.push(format!("{t}:5:{v}"));
        }
        // every non-empty set of out-of-range components
        for mask in 1..8u8 {
            for (bi, big) in ["256", "257", "300", "65535"].iter().enumerate() {
                let small = SMALL[(mask as usize + bi) % SMALL.len()];
                let c: Vec<&str> = (0..3).map(|k| if mask >> k & 1 == 1 { *big } else { small }).collect();
                specs.push(format!("{t};2;{};{};{}", c[0], c[1], c[2]));
                specs.push(format!("{t}:2:{}:{}:{}", c[0], c[1], c[2]));
                specs.push(format!("{t}:2::{}:{}:{}", c[0], c[1], c[2]));
                specs.push(format!("{t}:2:0:{}:{}:{}", c[0], c[1], c[2]));
            }
        }
    }
    let mut out = vec![];
    for spec in &specs {
        for with_base in [false, true] {
            for (pre, post) in [("", ""), ("", ";1"), ("", ";31;44"), ("3;", ""), ("", ";38;5;2"), ("48;2;9;8;7;", ";4:3")] {
                let mut a = if with_base { BASE.to_vec() } else { vec![] };
                a.extend(format!("\x1b[{pre}{spec}{post}mx\u{e9}\x1b[1m!").into_bytes());
                out.push(a);
            }
        }
    }
    out
}

#[derive(Clone, Debug)]
struct Case {
    items: Vec<Item>,
    removed: u64,
    mode: u8,
    fracs: Vec<u16>,
}

fn cuts_for(bytes: &[u8], mode: u8, fracs: &[u16]) -> Vec<usize> {
    let len = bytes.len();
    if len < 2 {
        return vec![];
    }
    match mode {
        0 | 1 => vec![],
        2 => (1..len).collect(),
        3 => gen::interior_cuts(bytes),
        _ => {
            let mut v: Vec<usize> = fracs
                .iter()
                .map(|f| 1 + ((*f as usize * (len - 1)) >> 16))
                .collect();
            v.sort();
            v.dedup();
            v
        }
    }
}

fn case_json(c: &Case) -> Value {
    let bytes = gen::render(&c.items);
    json!({"hex": rt::hex(&bytes), "text": esc(&bytes), "cuts": cuts_for(&bytes, c.mode, &c.fracs),
           "others": c.items.iter().filter(|i| gen::is_other(i)).map(|i| rt::hex(&i.bytes())).collect::<Vec<_>>()})
}

fn check_case(c: &Case, acc: &mut Acc) -> Verdict {
    let bytes = gen::render(&c.items);
    let _ = c.removed;
    let cuts = cuts_for(&bytes, c.mode, &c.fracs);
    acc.class(if cuts.is_empty() { "fed-whole" } else { "fed-in-chunks" });
    if let Err(m) = check_stream(&bytes, &cuts) {
        return Verdict { result: Err(m), nontrivial: None };
    }
    // oracle 3: delete the non-SGR sequences
    let self_contained = c
        .items
        .iter()
        .all(|i| {
            let b = i.bytes();
            // an "other" item must be a complete sequence and nothing else (a
            // string payload holding the byte 0x9c, e.g. inside U+009C, ends the
            // string early and the rest of the payload is ordinary text)
            vt::state_after(&b) == St::Ground && (!gen::is_other(i) || vt::visible(&b).is_empty())
        });
    if self_contained && c.items.iter().any(gen::is_other) {
        acc.class("oracle3-applied");
        let kept: Vec<Item> = c.items.iter().filter(|i| !gen::is_other(i)).cloned().collect();
        let without = gen::render(&kept);
        let a = real_chars(&[&bytes]);
        let b = real_chars(&[&without]);
        if a != b {
            return Verdict {
                result: Err(format!(
                    "deleting the non-SGR sequences changes the result: {} vs {}: {}",
                    esc(&bytes),
                    esc(&without),
                    first_diff(&a, &b).unwrap_or_default()
                )),
                nontrivial: None,
            };
        }
    }
    // oracle 2 on every SGR item of the stream: replace it by its separate spelling
    let mut sep: Vec<u8> = Vec::new();
    for it in &c.items {
        match it {
            Item::Sgr(groups) if groups.len() > 1 => {
                for g in groups {
                    sep.extend(gen::render_sgr(std::slice::from_ref(g)));
                }
            }
            other => sep.extend(other.bytes()),
        }
    }
    if sep != bytes {
        acc.class("oracle2-applied");
        let a = real_chars(&[&bytes]);
        let b = real_chars(&[&sep]);
        if a != b {
            return Verdict {
                result: Err(format!(
                    "combined and separate spellings differ: {} vs {}: {}",
                    esc(&bytes),
                    esc(&sep),
                    first_diff(&a, &b).unwrap_or_default()
                )),
                nontrivial: None,
            };
        }
    }
    Verdict::ok(nontrivial(&bytes).then(|| digest(&bytes) ^ rt::mix(cuts.len() as u64)))
}

fn run(args: &Args, rep: &mut Report) {
    let tier = args.tier;
    rep.assume("a terminal has one underline style at a time: 4, 21 and 4:n replace each other (kitty/xterm); the reference interpreter and, since the F18 repair, the extractor agree on that");
    rep.assume("codes outside the property's list (blink, 22-29, 59, truncated extended colours, more than 32 parameter values) are not generated");

    // exhaustive: 1..3 groups
    let g = REP_GROUPS.len();
    let n = rt::workers();
    for depth in 1..=tier.pick(3usize, 4) {
        let total = (g as u64).pow(depth as u32);
        let accs = rt::par(n, |w| {
            let mut acc = Acc::new();
            let lo = total * w as u64 / n as u64;
            let hi = total * (w as u64 + 1) / n as u64;
            'outer: for idx in lo..hi {
                let mut x = idx;
                let mut groups: Vec<&str> = Vec::with_capacity(depth);
                for _ in 0..depth {
                    groups.push(REP_GROUPS[(x % g as u64) as usize]);
                    x /= g as u64;
                }
                groups.reverse();
                for with_base in [false, true] {
                    acc.eval();
                    match rt::guarded(|| check_groups(&groups, with_base)) {
                        Ok(None) => acc.class("excluded:more-than-32-parameter-values"),
                        Ok(Some(nt)) => {
                            if nt {
                                acc.nontrivial_distinct();
                                acc.sample(|| json!({"sequence": esc(&seq(&groups)), "from_base_style": with_base}));
                            }
                        }
                        Err(m) => {
                            let mut b = if with_base { BASE.to_vec() } else { vec![] };
                            b.extend(seq(&groups));
                            b.extend_from_slice(b"x\xc3\xa9");
                            acc.fail(
                                "exhaustive-groups",
                                json!({"hex": rt::hex(&b), "text": esc(&b), "groups": groups, "with_base": with_base}),
                                m,
                            );
                            break 'outer;
                        }
                    }
                }
            }
            acc
        });
        let failed = accs.iter().any(|a| a.failed());
        rep.add(
            "exhaustive-groups",
            true,
            &format!("all sequences of 1..=3 (thorough: 4) groups over {g} representative groups x {{default, non-default base style}}"),
            accs,
        );
        if failed {
            break;
        }
    }

    {
        let streams = out_of_range_streams();
        let total = streams.len();
        let accs = rt::par(n, |w| {
            let mut acc = Acc::new();
            for st in streams.iter().skip(w).step_by(n) {
                acc.eval();
                match rt::guarded(|| check_out_of_range(st)) {
                    Ok(()) => {
                        acc.nontrivial_distinct();
                        acc.sample(|| json!({"text": esc(st)}));
                    }
                    Err(m) => {
                        acc.fail("out-of-range-colour-values", json!({"hex": rt::hex(st), "text": esc(st)}), m);
                        break;
                    }
                }
            }
            acc
        });
        rep.add(
            "out-of-range-colour-values",
            true,
            &format!("{total} sequences: 38/48/58 in the ;5;n :5:n ;2;r;g;b :2:r:g:b :2::r:g:b :2:0:r:g:b spellings with an index / every non-empty set of components in 256..=65535 (and saturating), alone and between other attributes, from the default and a non-default style, fed whole and byte by byte; accepted: the colour changes nothing, or the value saturates"),
            accs,
        );
    }

    let mk = move |cfg: SgrStreamCfg| {
        move || {
            (gen::sgr_stream(cfg), 0u8..=6, proptest::collection::vec(any::<u16>(), 1..12)).prop_map(
                |((items, removed), mode, fracs)| Case { items, removed, mode, fracs },
            )
        }
    };
    let cfg = SgrStreamCfg { max_items: 24, others: true, c0: true, xml_text: false, single_group: false };
    rep.add(
        "grammar-streams",
        false,
        "text + G-SGR + non-SGR sequences, 0..24 items, whole and chunked",
        prop_par("grammar-streams", args.seed, tier.pick(40_000, 1_500_000), mk(cfg), check_case, case_json),
    );
    let cfg = SgrStreamCfg { max_items: 10, others: false, c0: false, xml_text: false, single_group: false };
    rep.add(
        "sgr-only-streams",
        false,
        "text + G-SGR only, 0..10 items (dense in attribute interactions)",
        prop_par("sgr-only-streams", args.seed, tier.pick(40_000, 1_500_000), mk(cfg), check_case, case_json),
    );
    let cfg = SgrStreamCfg { max_items: 6, others: true, c0: true, xml_text: false, single_group: false };
    rep.add(
        "huge-streams",
        false,
        "text + G-SGR + non-SGR sequences (0..6 items) with one printable run of 64..200 KiB, whole, cut inside sequences, or at a few generated positions",
        prop_par(
            "huge-streams",
            args.seed,
            tier.pick(80, 4_000),
            move || {
                (gen::sgr_stream(cfg), gen::huge_text(false), any::<u16>(), prop_oneof![Just(0u8), Just(3u8), Just(5u8)], proptest::collection::vec(any::<u16>(), 1..5)).prop_map(|((mut items, removed), big, frac, mode, fracs)| {
                    gen::insert_huge(&mut items, big, frac);
                    Case { items, removed, mode, fracs }
                })
            },
            |c, acc| {
                let v = check_case(c, acc);
                // every case has a run beyond 64 KiB
                if v.result.is_ok() { Verdict::ok(Some(digest(&gen::render(&c.items)) ^ rt::mix(c.mode as u64))) } else { v }
            },
            |c| {
                let bytes = gen::render(&c.items);
                json!({"hex": rt::hex(&bytes), "length": bytes.len(), "cuts": cuts_for(&bytes, c.mode, &c.fracs)})
            },
        ),
    );
    if args.tier == vcore::rt::Tier::Thorough {
        checks::fuzzrun::campaign(rep, args, "sgr", 300000, checks::oracle::fuzz_sgr);
    }
}

fn replay(sub: &str, case: &Value) -> Result<(), String> {
    if sub.starts_with("libfuzzer-") {
        return checks::oracle::fuzz_sgr(&vcore::drive::case_bytes(case));
    }
    let bytes = vcore::drive::case_bytes(case);
    if sub == "out-of-range-colour-values" {
        return check_out_of_range(&bytes);
    }
    if sub == "exhaustive-groups" {
        if let Some(gs) = case.get("groups").and_then(|g| g.as_array()) {
            let owned: Vec<String> = gs.iter().filter_map(|g| g.as_str()).map(|s| s.to_owned()).collect();
            let groups: Vec<&str> = owned.iter().map(|s| s.as_str()).collect();
            let with_base = case["with_base"].as_bool().unwrap_or(false);
            return check_groups(&groups, with_base).map(|_| ());
        }
    }
    let cuts: Vec<usize> = case
        .get("cuts")
        .and_then(|c| c.as_array())
        .map(|a| a.iter().filter_map(|v| v.as_u64()).map(|v| v as usize).collect())
        .unwrap_or_default();
    check_stream(&bytes, &cuts)?;
    check_stream(&bytes, &[])?;
    // oracle 3 with the recorded other-sequences removed
    if let Some(others) = case.get("others").and_then(|o| o.as_array()) {
        let mut without = bytes.clone();
        for o in others.iter().filter_map(|o| o.as_str()) {
            let pat = rt::unhex(o);
            if pat.is_empty() {
                continue;
            }
            if let Some(pos) = without.windows(pat.len()).position(|w| w == pat.as_slice()) {
                without.drain(pos..pos + pat.len());
            }
        }
        if vt::visible(&without) == vt::visible(&bytes) {
            let a = real_chars(&[&bytes]);
            let b = real_chars(&[&without]);
            if a != b {
                return Err(format!("deleting non-SGR sequences changes the result: {}", first_diff(&a, &b).unwrap_or_default()));
            }
        }
    }
    Ok(())
}

fn main() {
    rt::quiet_panics();
    rt::main("C07", RULE, run, &replay)
}
