//! Writes the committed seed corpus for the libFuzzer targets:
//! `corpusgen <dir>` -> <dir>/<target>/seed-NNN
use vcore::drive::sample_values;
use vcore::gen::{self, StreamCfg};

fn main() {
    let dir = std::path::PathBuf::from(std::env::args().nth(1).expect("output dir"));
    let streams: Vec<Vec<u8>> = sample_values(20261002, 40, &gen::stream(StreamCfg { max_items: 20, ..StreamCfg::ALL })).into_iter().map(|i| gen::render(&i)).collect();
    let findings: Vec<&[u8]> = vec![
        b"\x1b[3\n1mfoo", b"\xc5\x07", b"\xc3\x1b[31m", b"ab\x1b[", b"\x1b[4;31mx", b"\x1b[38;5;196;1mx", b"\x1b[38;2;1;2;3;4mx", b"\x1b[4:3ma\x1b[4:0mb", b"\x1b[>4;2mx",
        b"#\xc3\xa91", b"#+1+2+3", b"a\r\x1b[1m\nb", b"\x1b]0;t\x07x", b"\x1bPq#0;2;0;0;0\x1b\\", b"\x1b[1;2;3;4;5;6;7;8;9;10;11;12;13;14;15;16;17;18;19;20;21;22;23;24;25;26;27;28;29;30;31;32;33m",
    ];
    let write = |target: &str, name: String, data: &[u8]| {
        let d = dir.join(target);
        std::fs::create_dir_all(&d).unwrap();
        std::fs::write(d.join(name), data).unwrap();
    };
    for (i, s) in streams.iter().enumerate() {
        write("strip", format!("gram-{i:03}"), s);
        let mut p = vec![(i * 37 % 256) as u8];
        p.extend_from_slice(s);
        write("parser", format!("gram-{i:03}"), &p);
        let mut c = vec![3u8, 40, 120, 200];
        c.extend_from_slice(s);
        write("chunk", format!("gram-{i:03}"), &c);
        let mut r = vec![(i % 7) as u8; checks::oracle::ROBUST_HEADER];
        r.extend_from_slice(s);
        write("robust", format!("gram-{i:03}"), &r);
        // for the structured target the raw bytes are just decoder fodder
        write("sgr", format!("gram-{i:03}"), s);
    }
    for (i, f) in findings.iter().enumerate() {
        write("strip", format!("finding-{i:02}"), f);
        let mut p = vec![2u8];
        p.extend_from_slice(f);
        write("parser", format!("finding-{i:02}"), &p);
        let mut c = vec![1u8, 128];
        c.extend_from_slice(f);
        write("chunk", format!("finding-{i:02}"), &c);
        let mut r = vec![0u8; checks::oracle::ROBUST_HEADER];
        r.extend_from_slice(f);
        write("robust", format!("finding-{i:02}"), &r);
    }
    // repository golden files
    for p in ["/repo/crates/anstyle-svg/tests/rainbow.vte", "/repo/crates/anstyle-svg/tests/rg_linus.vte"] {
        if let Ok(d) = std::fs::read(p) {
            let d = &d[..d.len().min(4000)];
            let name = std::path::Path::new(p).file_name().unwrap().to_string_lossy().to_string();
            write("strip", name.clone(), d);
            let mut x = vec![9u8];
            x.extend_from_slice(d);
            write("parser", name.clone(), &x);
            let mut r = vec![1u8; checks::oracle::ROBUST_HEADER];
            r.extend_from_slice(d);
            write("robust", name, &r);
        }
    }
}
