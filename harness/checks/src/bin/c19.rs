//! C19 — output of one print call is never interleaved with another thread's.
//!
//! The parent generates cases and runs each in a child process (this same
//! binary with `--child`) whose stdout/stderr are pipes; the child prints
//! self-delimiting records from several threads; a *gated* fragment hands
//! the CPU to a contender thread in the middle of a formatted write.
use anstream::{eprint as aeprint, eprintln as aeprintln, print as aprint, println as aprintln};
use proptest::prelude::*;
use serde::{Deserialize, Serialize};
use serde_json::{json, Value};
use std::io::Write;
use std::sync::atomic::{AtomicBool, AtomicU64, AtomicUsize, Ordering};
use std::sync::{Arc, Condvar, Mutex};
use std::time::{Duration, Instant};
use vcore::drive::sample_values;
use vcore::rt::{self, Acc, Args, Report};

const RULE: &str = "A case = (mode: stripping via NO_COLOR=1 | pass-through via CLICOLOR_FORCE=1, stream: stdout | stderr, API: print!/eprint!, println!/eprintln!, write!, writeln!, write_all, threads 2..16, prints per thread, fragments per print 1..6, gate position). Each print emits one record <tid:seq|f1..fk|tid:seq> built from k {} arguments (each wrapped in SGR codes) and literal pieces. In gated cases one fragment is a Display that, in the middle of the call, wakes a contender thread which performs a complete print of its own, and waits until the contender finished or 8 ms passed. Oracle: the bytes read from the pipe parse as a sequence of complete records whose payload is the expected (stripped or verbatim) text; per thread the sequence numbers are complete and increasing. Register: reader's (c1, value, c2) windows against one writer's published history; last-writer-wins after joins. Large-record cases: the same records with a first fragment padded to 64..200 KiB (one letter per thread), half of them - and further cases of 1.6..9 KB - with one newline inside the padding (bytes after a line end within one call). Non-trivial = a gated print during which the contender was really started (measured in the child), distinct by (case, print); for large-record cases every record counts.";

#[derive(Clone, Copy, Debug, PartialEq, Eq, Serialize, Deserialize)]
enum Api {
    Print,
    Println,
    Write,
    Writeln,
    WriteAll,
    /// one long-lived stream per thread; even prints end with the start of an escape sequence
    /// ("...>ESC["), odd prints begin with its end ("1m<..."), so that every second formatted write
    /// starts with the stream's stripper in the middle of a sequence (stripping mode only)
    WriteCarry,
}

#[derive(Clone, Debug, Serialize, Deserialize)]
struct Case {
    strip: bool,
    stderr: bool,
    api: Api,
    threads: usize,
    prints: usize,
    fragments: usize,
    /// number of gated prints performed by thread 0 (0 = free-running stress only)
    gated: usize,
    gate_pos: usize,
    /// extra length of the first fragment (records far larger than any internal buffer)
    #[serde(default)]
    pad: usize,
    /// the padding holds one newline after its first third: the record continues for thousands of
    /// bytes after a line end (what a line-buffered standard stream flushes early), and - for the
    /// APIs that add none - does not end in a newline
    #[serde(default)]
    pad_nl: bool,
    /// run the child built against anstream's `test` feature (capture-aware print macros)
    #[serde(default)]
    test_feature: bool,
}

/// the padding of fragment 0: one letter per thread, so that a foreign piece inside it is visible
fn padding(case: &Case, tid: usize, i: usize) -> String {
    if i == 0 && case.pad > 0 {
        let letter = ((b'A' + (tid % 26) as u8) as char).to_string();
        if case.pad_nl {
            format!("{}\n{}", letter.repeat(case.pad / 3), letter.repeat(case.pad - case.pad / 3))
        } else {
            letter.repeat(case.pad)
        }
    } else {
        String::new()
    }
}

fn fragment(case: &Case, tid: usize, seq: usize, i: usize) -> String {
    format!("\x1b[3{}m{}.{}.{}{}\x1b[0m", i % 8, tid, seq, "x".repeat(1 + (tid + seq + i) % 5), padding(case, tid, i))
}

fn fragment_plain(case: &Case, tid: usize, seq: usize, i: usize) -> String {
    format!("{}.{}.{}{}", tid, seq, "x".repeat(1 + (tid + seq + i) % 5), padding(case, tid, i))
}

fn expected_record(case: &Case, tid: usize, seq: usize) -> String {
    let mut s = format!("<{tid}:{seq}|");
    for i in 0..case.fragments {
        if i > 0 {
            s.push(' ');
        }
        if case.strip {
            s.push_str(&fragment_plain(case, tid, seq, i));
        } else {
            s.push_str(&fragment(case, tid, seq, i));
        }
    }
    s.push_str(&format!("|{tid}:{seq}>"));
    if matches!(case.api, Api::Println | Api::Writeln) {
        s.push('\n');
    }
    s
}

// ------------------------------------------------------------------ child

struct GateShared {
    go: Mutex<u64>,
    cv: Condvar,
    /// round (value of `go`) the contender last started / finished serving
    started_round: AtomicU64,
    done_round: AtomicU64,
    started_during_call: AtomicUsize,
    completed_during_call: AtomicUsize,
}

struct Frag<'a> {
    text: String,
    gate: Option<&'a GateShared>,
}

impl std::fmt::Display for Frag<'_> {
    fn fmt(&self, f: &mut std::fmt::Formatter<'_>) -> std::fmt::Result {
        match self.gate {
            None => f.write_str(&self.text),
            Some(g) => {
                let mid = self.text.len() / 2;
                f.write_str(&self.text[..mid])?;
                // wake the contender in the middle of this formatted write
                let round = {
                    let mut go = g.go.lock().unwrap();
                    *go += 1;
                    g.cv.notify_all();
                    *go
                };
                let t0 = Instant::now();
                while g.done_round.load(Ordering::SeqCst) < round && t0.elapsed() < Duration::from_millis(8) {
                    std::thread::yield_now();
                }
                if g.started_round.load(Ordering::SeqCst) >= round {
                    g.started_during_call.fetch_add(1, Ordering::SeqCst);
                }
                if g.done_round.load(Ordering::SeqCst) >= round {
                    g.completed_during_call.fetch_add(1, Ordering::SeqCst);
                }
                f.write_str(&self.text[mid..])
            }
        }
    }
}

fn do_print(case: &Case, tid: usize, seq: usize, gate: Option<&GateShared>) {
    let fr: Vec<Frag<'_>> = (0..case.fragments)
        .map(|i| Frag { text: fragment(case, tid, seq, i), gate: if gate.is_some() && i == case.gate_pos % case.fragments { gate } else { None } })
        .collect();
    macro_rules! args_call {
        ($mac:ident; $($pre:expr),*) => {
            match fr.len() {
                1 => $mac!($($pre,)* "<{}:{}|{}|{}:{}>", tid, seq, fr[0], tid, seq),
                2 => $mac!($($pre,)* "<{}:{}|{} {}|{}:{}>", tid, seq, fr[0], fr[1], tid, seq),
                3 => $mac!($($pre,)* "<{}:{}|{} {} {}|{}:{}>", tid, seq, fr[0], fr[1], fr[2], tid, seq),
                4 => $mac!($($pre,)* "<{}:{}|{} {} {} {}|{}:{}>", tid, seq, fr[0], fr[1], fr[2], fr[3], tid, seq),
                5 => $mac!($($pre,)* "<{}:{}|{} {} {} {} {}|{}:{}>", tid, seq, fr[0], fr[1], fr[2], fr[3], fr[4], tid, seq),
                _ => $mac!($($pre,)* "<{}:{}|{} {} {} {} {} {}|{}:{}>", tid, seq, fr[0], fr[1], fr[2], fr[3], fr[4], fr[5], tid, seq),
            }
        };
    }
    match (case.api, case.stderr) {
        (Api::Print, false) => args_call!(aprint;),
        (Api::Print, true) => args_call!(aeprint;),
        (Api::Println, false) => args_call!(aprintln;),
        (Api::Println, true) => args_call!(aeprintln;),
        (Api::Write, false) => {
            let mut s = anstream::stdout();
            let _ = args_call!(write; s);
        }
        (Api::Write, true) => {
            let mut s = anstream::stderr();
            let _ = args_call!(write; s);
        }
        (Api::Writeln, false) => {
            let mut s = anstream::stdout();
            let _ = args_call!(writeln; s);
        }
        (Api::Writeln, true) => {
            let mut s = anstream::stderr();
            let _ = args_call!(writeln; s);
        }
        (Api::WriteCarry, false) => {
            // (the contender of a carry case: an ordinary formatted write on a fresh stream)
            let mut s = anstream::stdout();
            let _ = args_call!(write; s);
        }
        (Api::WriteCarry, true) => {
            let mut s = anstream::stderr();
            let _ = args_call!(write; s);
        }
        (Api::WriteAll, err) => {
            let text = args_call!(format;);
            if err {
                let _ = anstream::stderr().write_all(text.as_bytes());
            } else {
                let _ = anstream::stdout().write_all(text.as_bytes());
            }
        }
    }
}

/// one print of a `WriteCarry` thread on its long-lived stream
fn do_print_carry(s: &mut dyn Write, case: &Case, tid: usize, seq: usize, gate: Option<&GateShared>) {
    let fr: Vec<Frag<'_>> = (0..case.fragments)
        .map(|i| Frag { text: fragment(case, tid, seq, i), gate: if gate.is_some() && i == case.gate_pos % case.fragments { gate } else { None } })
        .collect();
    macro_rules! carry {
        ($pre:literal, $suf:literal) => {
            match fr.len() {
                1 => write!(s, concat!($pre, "<{}:{}|{}|{}:{}>", $suf), tid, seq, fr[0], tid, seq),
                2 => write!(s, concat!($pre, "<{}:{}|{} {}|{}:{}>", $suf), tid, seq, fr[0], fr[1], tid, seq),
                3 => write!(s, concat!($pre, "<{}:{}|{} {} {}|{}:{}>", $suf), tid, seq, fr[0], fr[1], fr[2], tid, seq),
                4 => write!(s, concat!($pre, "<{}:{}|{} {} {} {}|{}:{}>", $suf), tid, seq, fr[0], fr[1], fr[2], fr[3], tid, seq),
                5 => write!(s, concat!($pre, "<{}:{}|{} {} {} {} {}|{}:{}>", $suf), tid, seq, fr[0], fr[1], fr[2], fr[3], fr[4], tid, seq),
                _ => write!(s, concat!($pre, "<{}:{}|{} {} {} {} {} {}|{}:{}>", $suf), tid, seq, fr[0], fr[1], fr[2], fr[3], fr[4], fr[5], tid, seq),
            }
        };
    }
    let _ = if seq % 2 == 0 { carry!("", "\x1b[") } else { carry!("1m", "") };
}

const CONTENDER: usize = 99;

fn child_main(case: Case) {
    let g = Arc::new(GateShared {
        go: Mutex::new(0),
        cv: Condvar::new(),
        started_round: AtomicU64::new(0),
        done_round: AtomicU64::new(0),
        started_during_call: AtomicUsize::new(0),
        completed_during_call: AtomicUsize::new(0),
    });
    let stop = Arc::new(AtomicBool::new(false));
    let contender = {
        let g = g.clone();
        let stop = stop.clone();
        let case = case.clone();
        std::thread::spawn(move || {
            let mut served = 0u64;
            let mut seq = 0usize;
            loop {
                {
                    let mut go = g.go.lock().unwrap();
                    while *go == served && !stop.load(Ordering::SeqCst) {
                        let (guard, _) = g.cv.wait_timeout(go, Duration::from_millis(20)).unwrap();
                        go = guard;
                    }
                    if *go == served && stop.load(Ordering::SeqCst) {
                        return seq;
                    }
                    served = *go;
                }
                g.started_round.store(served, Ordering::SeqCst);
                do_print(&case, CONTENDER, seq, None);
                seq += 1;
                g.done_round.store(served, Ordering::SeqCst);
            }
        })
    };
    let mut handles = vec![];
    for tid in 0..case.threads {
        let case = case.clone();
        let g = g.clone();
        handles.push(std::thread::spawn(move || {
            let mut carried: Option<Box<dyn Write>> = if case.api == Api::WriteCarry {
                Some(if case.stderr { Box::new(anstream::stderr()) } else { Box::new(anstream::stdout()) })
            } else {
                None
            };
            for seq in 0..case.prints {
                let gated = tid == 0 && seq < case.gated;
                match carried.as_mut() {
                    Some(s) => do_print_carry(s.as_mut(), &case, tid, seq, if gated { Some(&g) } else { None }),
                    None => do_print(&case, tid, seq, if gated { Some(&g) } else { None }),
                }
                if gated {
                    // let the contender finish this round before the next gated print
                    let round = *g.go.lock().unwrap();
                    let t0 = Instant::now();
                    while g.done_round.load(Ordering::SeqCst) < round && t0.elapsed() < Duration::from_secs(2) {
                        std::thread::yield_now();
                    }
                }
            }
        }));
    }
    for h in handles {
        h.join().unwrap();
    }
    stop.store(true, Ordering::SeqCst);
    {
        let _go = g.go.lock().unwrap();
        g.cv.notify_all();
    }
    let contender_prints = contender.join().unwrap();
    let _ = anstream::stdout().flush();
    let _ = anstream::stderr().flush();
    // statistics go to the stream that is not under test
    let stats = json!({
        "started_during_call": g.started_during_call.load(Ordering::SeqCst),
        "completed_during_call": g.completed_during_call.load(Ordering::SeqCst),
        "contender_prints": contender_prints,
    });
    if case.stderr {
        println!("STATS {stats}");
    } else {
        eprintln!("STATS {stats}");
    }
}

// ----------------------------------------------------------------- parent

fn parse_output(case: &Case, out: &str, contender_prints: usize) -> Result<u64, String> {
    let mut next: std::collections::BTreeMap<usize, usize> = Default::default();
    let mut pos = 0usize;
    let mut n = 0u64;
    while pos < out.len() {
        let rest = &out[pos..];
        // header
        let hdr_end = rest.find('|').ok_or_else(|| format!("garbage at byte {pos}: {:?}", &rest[..rest.len().min(60)]))?;
        let hdr = &rest[..hdr_end];
        let (tid, seq) = hdr
            .strip_prefix('<')
            .and_then(|h| h.split_once(':'))
            .and_then(|(t, s)| Some((t.parse::<usize>().ok()?, s.parse::<usize>().ok()?)))
            .ok_or_else(|| format!("malformed record header at byte {pos}: {:?}", &rest[..rest.len().min(60)]))?;
        let want = expected_record(case, tid, seq);
        if !rest.starts_with(&want) {
            let l = want.len().min(rest.len());
            if l <= 400 {
                return Err(format!(
                    "record {tid}:{seq} is not contiguous at byte {pos}: read {:?}, one print call produces {:?}",
                    &rest[..(l + 40).min(rest.len())],
                    want
                ));
            }
            // long records: show the neighbourhood of the first difference only
            let d = rest.bytes().zip(want.bytes()).position(|(a, b)| a != b).unwrap_or(l);
            let win = |t: &str| String::from_utf8_lossy(&t.as_bytes()[d.saturating_sub(30).min(t.len())..(d + 40).min(t.len())]).into_owned();
            return Err(format!(
                "record {tid}:{seq} ({} bytes) is not contiguous: at byte {} of the record (output byte {}) read ...{:?}..., one print call produces ...{:?}...",
                want.len(), d, pos + d, win(rest), win(&want)
            ));
        }
        let e = next.entry(tid).or_insert(0);
        if *e != seq {
            return Err(format!("thread {tid}: record {seq} arrived but {} was expected next", *e));
        }
        *e += 1;
        pos += want.len();
        n += 1;
    }
    for tid in 0..case.threads {
        if next.get(&tid).copied().unwrap_or(0) != case.prints {
            return Err(format!("thread {tid}: {} of {} records arrived", next.get(&tid).copied().unwrap_or(0), case.prints));
        }
    }
    if next.get(&CONTENDER).copied().unwrap_or(0) != contender_prints {
        return Err(format!("contender: {} of {} records arrived", next.get(&CONTENDER).copied().unwrap_or(0), contender_prints));
    }
    Ok(n)
}

struct ChildResult {
    records: u64,
    started_during_call: u64,
    completed_during_call: u64,
}

fn run_case(case: &Case) -> Result<ChildResult, String> {
    let exe = if case.test_feature {
        let p = rt::verif_dir().join("target/release/c19t");
        if !p.exists() {
            return Err("INFRA target/release/c19t is missing (scripts/pre-c19.sh)".into());
        }
        p
    } else {
        std::env::current_exe().map_err(|e| format!("current_exe: {e}"))?
    };
    let mut cmd = std::process::Command::new(exe);
    cmd.arg("--child").arg(serde_json::to_string(case).unwrap());
    for k in ["NO_COLOR", "CLICOLOR_FORCE", "CLICOLOR", "CI", "TERM"] {
        cmd.env_remove(k);
    }
    if case.strip {
        cmd.env("NO_COLOR", "1");
    } else {
        cmd.env("CLICOLOR_FORCE", "1");
    }
    cmd.stdin(std::process::Stdio::null()).stdout(std::process::Stdio::piped()).stderr(std::process::Stdio::piped());
    let out = cmd.spawn().and_then(|c| c.wait_with_output()).map_err(|e| format!("INFRA spawn: {e}"))?;
    if !out.status.success() {
        return Err(format!("INFRA child exited with {:?}: {}", out.status, String::from_utf8_lossy(&out.stderr).chars().take(300).collect::<String>()));
    }
    let (target, other) = if case.stderr { (&out.stderr, &out.stdout) } else { (&out.stdout, &out.stderr) };
    let other = String::from_utf8_lossy(other);
    let stats: Value = other
        .lines()
        .find_map(|l| l.strip_prefix("STATS "))
        .and_then(|j| serde_json::from_str(j).ok())
        .ok_or_else(|| format!("INFRA no STATS line from child: {:?}", other.chars().take(200).collect::<String>()))?;
    let text = String::from_utf8(target.clone()).map_err(|_| "output is not UTF-8".to_owned())?;
    let contender_prints = stats["contender_prints"].as_u64().unwrap_or(0) as usize;
    let records = parse_output(case, &text, contender_prints)?;
    let completed = stats["completed_during_call"].as_u64().unwrap_or(0);
    if completed > 0 {
        return Err(format!("the contender completed a whole print {completed} times while another thread's formatted write was still in progress (the stream lock was not held for the whole call)"));
    }
    Ok(ChildResult { records, started_during_call: stats["started_during_call"].as_u64().unwrap_or(0), completed_during_call: completed })
}

fn arb_case(gated: bool) -> impl Strategy<Value = Case> {
    (
        any::<bool>(),
        any::<bool>(),
        if gated {
            prop_oneof![Just(Api::Print), Just(Api::Println), Just(Api::Write), Just(Api::Writeln)].boxed()
        } else {
            prop_oneof![Just(Api::Print), Just(Api::Println), Just(Api::Write), Just(Api::Writeln), Just(Api::WriteAll)].boxed()
        },
        2usize..=16,
        1usize..=6,
        0usize..6,
    )
        .prop_map(move |(strip, stderr, api, threads, fragments, gate_pos)| Case {
            strip,
            stderr,
            api,
            threads: if gated { threads.min(4) } else { threads },
            prints: if gated { 6 } else { 400 },
            fragments,
            gated: if gated { 5 } else { 0 },
            gate_pos,
            pad: 0,
            pad_nl: false,
            test_feature: false,
        })
}

/// long-lived streams whose stripper is in the middle of a sequence when a formatted write starts
fn arb_carry_case(gated: bool) -> impl Strategy<Value = Case> {
    (any::<bool>(), 2usize..=8, 1usize..=6, 0usize..6).prop_map(move |(stderr, threads, fragments, gate_pos)| Case {
        strip: true,
        stderr,
        api: Api::WriteCarry,
        threads: if gated { threads.min(4) } else { threads },
        // an even number of prints: every thread ends with its stream back in the ground state
        prints: if gated { 6 } else { 400 },
        fragments,
        gated: if gated { 6 } else { 0 },
        gate_pos,
        pad: 0,
        pad_nl: false,
        test_feature: false,
    })
}

/// records of 64 KiB .. 200 KiB: larger than the pipe buffer and any plausible internal chunk size
fn arb_large_case() -> impl Strategy<Value = Case> {
    (
        any::<bool>(),
        any::<bool>(),
        prop_oneof![2 => Just(Api::WriteAll), 1 => Just(Api::Print), 1 => Just(Api::Println), 1 => Just(Api::Write), 1 => Just(Api::Writeln)],
        2usize..=6,
        1usize..=3,
        prop::sample::select(vec![1_600usize, 3_000, 9_000, 65_400, 65_536, 66_000, 131_072, 140_000, 200_000]),
        any::<bool>(),
    )
        .prop_map(|(strip, stderr, api, threads, fragments, pad, nl)| {
            // the short paddings exist for the line-end shape only
            let pad_nl = nl || pad < 60_000;
            Case { strip, stderr, api, threads, prints: if pad < 60_000 { 60 } else { 10 }, fragments, gated: 0, gate_pos: 0, pad, pad_nl, test_feature: false }
        })
}

// ---- register

fn register_check(acc: &mut Acc, rounds: usize) {
    use colorchoice::ColorChoice as C;
    const VALUES: [C; 4] = [C::Auto, C::AlwaysAnsi, C::Always, C::Never];
    let value = |i: u64| VALUES[(rt::mix(i) % 4) as usize];
    for round in 0..rounds {
        let initial = VALUES[round % 4];
        initial.write_global();
        let counter = Arc::new(AtomicU64::new(0));
        let n_writes = 20_000u64;
        let stop = Arc::new(AtomicBool::new(false));
        let failure: Arc<Mutex<Option<String>>> = Arc::new(Mutex::new(None));
        let mut readers = vec![];
        let reads = Arc::new(AtomicU64::new(0));
        let windows = Arc::new(AtomicU64::new(0));
        for _ in 0..6 {
            let counter = counter.clone();
            let stop = stop.clone();
            let failure = failure.clone();
            let reads = reads.clone();
            let windows = windows.clone();
            readers.push(std::thread::spawn(move || {
                while !stop.load(Ordering::SeqCst) {
                    let c1 = counter.load(Ordering::SeqCst);
                    let g = C::global();
                    let c2 = counter.load(Ordering::SeqCst);
                    reads.fetch_add(1, Ordering::Relaxed);
                    if c2 > c1 {
                        windows.fetch_add(1, Ordering::Relaxed);
                    }
                    // allowed: the value of the last write completed before c1 was read
                    // (or the initial value) up to the write in progress when c2 was read
                    let mut ok = false;
                    let lo = c1 as i64 - 1;
                    let hi = (c2 as i64).min(n_writes as i64 - 1);
                    let mut j = lo;
                    while j <= hi {
                        let v = if j < 0 { initial } else { value(j as u64) };
                        if v == g {
                            ok = true;
                            break;
                        }
                        j += 1;
                    }
                    if !ok {
                        *failure.lock().unwrap() = Some(format!("a read between {c1} and {c2} completed writes returned {:?}, which none of the writes in that window stored", g));
                        return;
                    }
                }
            }));
        }
        let writer = {
            let counter = counter.clone();
            std::thread::spawn(move || {
                for i in 0..n_writes {
                    value(i).write_global();
                    counter.store(i + 1, Ordering::SeqCst);
                }
            })
        };
        writer.join().unwrap();
        stop.store(true, Ordering::SeqCst);
        for r in readers {
            r.join().unwrap();
        }
        acc.evals += reads.load(Ordering::Relaxed);
        acc.nontrivial_counted += windows.load(Ordering::Relaxed);
        if let Some(m) = failure.lock().unwrap().take() {
            acc.fail("global-register", json!({"round": round}), m);
            return;
        }
        let last = C::global();
        if last != value(n_writes - 1) {
            acc.fail("global-register", json!({"round": round}), format!("after the writer finished the register holds {:?}, its last write was {:?}", last, value(n_writes - 1)));
            return;
        }
        // several concurrent writers with restricted value sets: a read must be the initial
        // value or a value that SOME writer wrote, and after all writers are joined the
        // register must hold the last write of one of them (every linearisation ends with
        // some writer's last write)
        for sub in 0..200u64 {
            // two values are written, one is the initial value, the fourth is never written
            let perm = rt::mix(round as u64 * 1000 + sub);
            let init = VALUES[(perm % 4) as usize];
            let a = VALUES[((perm % 4 + 1) % 4) as usize];
            let b = VALUES[((perm % 4 + 2) % 4) as usize];
            let never = VALUES[((perm % 4 + 3) % 4) as usize];
            init.write_global();
            let barrier = Arc::new(std::sync::Barrier::new(4));
            let stop = Arc::new(AtomicBool::new(false));
            let bad_read = Arc::new(AtomicBool::new(false));
            let mut hs = vec![];
            for (v, other) in [(a, init), (b, init)] {
                let barrier = barrier.clone();
                hs.push(std::thread::spawn(move || {
                    barrier.wait();
                    for i in 0..300u32 {
                        // alternate between the writer's own value and the initial one, ending with its own
                        if i % 2 == 0 { v.write_global() } else { other.write_global() }
                    }
                    v.write_global();
                }));
            }
            let mut rs = vec![];
            for _ in 0..2 {
                let barrier = barrier.clone();
                let stop = stop.clone();
                let bad_read = bad_read.clone();
                rs.push(std::thread::spawn(move || {
                    barrier.wait();
                    let mut n = 0u64;
                    while !stop.load(Ordering::SeqCst) {
                        if C::global() == never {
                            bad_read.store(true, Ordering::SeqCst);
                        }
                        n += 1;
                    }
                    n
                }));
            }
            for h in hs {
                h.join().unwrap();
            }
            stop.store(true, Ordering::SeqCst);
            for r in rs {
                acc.evals += r.join().unwrap();
            }
            acc.nontrivial_counted += 1;
            let fin = C::global();
            if bad_read.load(Ordering::SeqCst) {
                acc.fail("global-register", json!({"round": round}), format!("a reader saw {:?} although the register started as {:?} and the two writers only ever wrote {:?}, {:?} and {:?}", never, init, a, b, init));
                return;
            }
            if fin != a && fin != b {
                acc.fail("global-register", json!({"round": round}), format!("two writers finished with {:?} and {:?} as their last writes but the register holds {:?}", a, b, fin));
                return;
            }
        }
        // many writers, then a designated last writer
        let mut ws = vec![];
        for t in 0..8u64 {
            ws.push(std::thread::spawn(move || {
                for i in 0..5_000u64 {
                    value(t * 1_000_003 + i).write_global();
                    let g = C::global();
                    if !VALUES.contains(&g) {
                        return Err(format!("read {:?}", g));
                    }
                }
                Ok(())
            }));
        }
        for w in ws {
            if let Err(m) = w.join().unwrap() {
                acc.fail("global-register", json!({"round": round}), m);
                return;
            }
        }
        let fin = VALUES[(round + 1) % 4];
        std::thread::spawn(move || fin.write_global()).join().unwrap();
        if C::global() != fin {
            acc.fail("global-register", json!({"round": round}), format!("after all writers finished the register holds {:?}, the last write was {:?}", C::global(), fin));
            return;
        }
    }
    acc.samples.push(json!({"writer": "20000 writes", "readers": 6}));
    colorchoice::ColorChoice::Auto.write_global();
}

fn run(args: &Args, rep: &mut Report) {
    let tier = args.tier;
    rep.assume("the harness owns one scheduling point per gated print (a Display that yields to a contender thread for up to 8 ms); other interleavings come from free-running stress only; memory-ordering weakenings of the global register are not observable on x86");
    rep.assume("the wait inside the gate is bounded by a time-out: a stalled machine can hide a violation, it cannot create one");
    // gated cases
    let gated_cases = sample_values(rt::derive_seed(args.seed, "gated", 0), tier.pick(150, 1500), &arb_case(true));
    let stress_cases = sample_values(rt::derive_seed(args.seed, "stress", 0), tier.pick(48, 400), &arb_case(false));
    // the print macros of a build with anstream's `test` feature (their capture-aware branch)
    let tf_cases: Vec<Case> = sample_values(rt::derive_seed(args.seed, "test-feature", 0), tier.pick(24, 200), &(arb_case(false), any::<bool>(), prop::sample::select(vec![0usize, 0, 70_000])))
        .into_iter()
        .map(|(mut c, ln, pad)| {
            c.api = if ln { Api::Println } else { Api::Print };
            c.test_feature = true;
            c.pad = pad;
            if pad > 0 {
                c.prints = 10;
                c.threads = c.threads.min(6);
            }
            c
        })
        .collect();
    let mut carry_cases = sample_values(rt::derive_seed(args.seed, "carry-gated", 0), tier.pick(40, 400), &arb_carry_case(true));
    carry_cases.extend(sample_values(rt::derive_seed(args.seed, "carry-stress", 0), tier.pick(12, 100), &arb_carry_case(false)));
    let large_cases = sample_values(rt::derive_seed(args.seed, "large", 0), tier.pick(36, 360), &arb_large_case());
    // many short calls whose bytes continue after a line end: the window between two partial
    // writes of a line-buffered stream is narrow, so this family trades size for repetition
    let mut line_end_cases = vec![];
    for (api, strip, stderr) in [
        (Api::WriteAll, true, false), (Api::WriteAll, false, false), (Api::WriteAll, true, true), (Api::WriteAll, false, true),
        (Api::Print, true, false), (Api::Write, true, false), (Api::Write, false, false), (Api::Println, true, false),
    ] {
        for pad in tier.pick(vec![3_000usize], vec![1_600, 3_000, 9_000]) {
            line_end_cases.push(Case { strip, stderr, api, threads: 4, prints: tier.pick(1_500, 4_000), fragments: 2, gated: 0, gate_pos: 0, pad, pad_nl: true, test_feature: false });
        }
    }
    for (name, cases, bound) in [
        ("line-end-stress", line_end_cases, "write_all / print! / write! / println! x {stripping, pass-through} x {stdout, stderr}: 4 threads x 1500 (thorough: 4000) calls of a few KB each, every record with thousands of bytes after an interior line end, no gate"),
        ("gated-prints", gated_cases, "generated cases with 5 gated prints each (2..4 threads + contender)"),
        ("free-running-stress", stress_cases, "generated cases with 2..16 threads x 400 prints, no gate"),
        ("large-records", large_cases, "generated cases with 2..6 threads x 10 prints of 64..200 KiB each (one-letter-per-thread padding; in half of them with one line end after the first third, so that thousands of bytes follow a newline inside one call), or x 60 prints of 1.6..9 KB of that shape, all APIs, no gate"),
        ("carried-state", carry_cases, "one long-lived stream per thread, formatted writes that alternately end and begin inside an escape sequence (stripping mode): gated cases (6 gated prints) and free-running stress (2..8 threads x 400 prints)"),
        ("test-feature-build", tf_cases, "print!/println!/eprint!/eprintln! in a child built against anstream with its `test` feature (capture-aware branch of the macros): 2..16 threads x 400 prints, some with 70 KB records, no gate"),
    ] {
        // children are run a few at a time: the gate needs idle cores to be meaningful
        let par_children = 4;
        let cases_ref = &cases;
        let accs = rt::par(par_children, |w| {
            let mut acc = Acc::new();
            for (i, case) in cases_ref.iter().enumerate() {
                if i % par_children != w {
                    continue;
                }
                acc.class(&format!("{:?}-{}-{}", case.api, if case.stderr { "stderr" } else { "stdout" }, if case.strip { "strip" } else { "passthrough" }));
                match run_case(case) {
                    Ok(r) => {
                        acc.evals += r.records;
                        acc.nontrivial_counted += if case.pad > 0 || case.test_feature { r.records } else { r.started_during_call };
                        let _ = r.completed_during_call;
                        acc.sample(|| serde_json::to_value(case).unwrap());
                    }
                    Err(m) if m.starts_with("INFRA") => {
                        acc.class("infra-error");
                        eprintln!("warning: {m}");
                    }
                    Err(m) => {
                        acc.fail(name, serde_json::to_value(case).unwrap(), m);
                        break;
                    }
                }
            }
            acc
        });
        let gated_ok: u64 = accs.iter().map(|a| a.nontrivial_counted).sum();
        let failed = accs.iter().any(|a| a.failed());
        rep.add(name, false, bound, accs);
        if name == "gated-prints" && gated_ok == 0 && !failed {
            rep.inconclusive("no gated print could be run (child processes failed to start or the contender never ran)");
        }
    }
    let mut acc = Acc::new();
    register_check(&mut acc, tier.pick(2, 12));
    rep.add("global-register", false, "1 writer (20000 writes) + 6 readers with (c1, value, c2) windows; 200 rounds per pass of 2 concurrent writers with restricted value sets + 2 readers (no never-written value may be read, final value = last write of one writer); 8 concurrent writers then a designated last writer", vec![acc]);
}

fn replay(sub: &str, case: &Value) -> Result<(), String> {
    if sub == "global-register" {
        let mut acc = Acc::new();
        register_check(&mut acc, 2);
        return match acc.failure {
            Some(f) => Err(f.message),
            None => Ok(()),
        };
    }
    let case: Case = serde_json::from_value(case.clone()).map_err(|e| format!("bad case: {e}"))?;
    // schedules are not replayable bit for bit: run the case several times
    for _ in 0..5 {
        run_case(&case)?;
    }
    Ok(())
}

pub fn main() {
    let argv: Vec<String> = std::env::args().collect();
    if argv.get(1).map(|s| s.as_str()) == Some("--child") {
        let case: Case = serde_json::from_str(&argv[2]).expect("case");
        child_main(case);
        return;
    }
    rt::quiet_panics();
    rt::main("C19", RULE, run, &replay)
}
