//! C02 — the parser reports exactly the events of the VT500 state machine.
use anstyle_parse::state::{state_change, Action, State};
use checks::oracle::{check_clone, check_cansub, check_events};
use proptest::prelude::*;
use serde_json::{json, Value};
use vcore::drive::{case_bytes, enum_par, stream_par, Verdict};
use vcore::gen::{self, StreamCfg};
use vcore::rt::{self, digest, Acc, Args, Report};
use vcore::vt::{self, Ac, St};

const RULE: &str = "A: all 16x256 (state, byte) pairs of the transition function. B: every byte string of the stated lengths over the class-representative alphabets. C: seeded grammar streams (G-STREAM, all classes). D: stream = prefix . CAN|SUB . rest. E: parser cloned at a generated split point. Non-trivial = the stream makes the parser report at least one CSI/ESC/OSC/DCS event (distinct by input bytes); for A every pair is distinct and counted.";

fn real_state(s: St) -> State {
    match s {
        St::Anywhere => State::Anywhere,
        St::CsiEntry => State::CsiEntry,
        St::CsiIgnore => State::CsiIgnore,
        St::CsiIntermediate => State::CsiIntermediate,
        St::CsiParam => State::CsiParam,
        St::DcsEntry => State::DcsEntry,
        St::DcsIgnore => State::DcsIgnore,
        St::DcsIntermediate => State::DcsIntermediate,
        St::DcsParam => State::DcsParam,
        St::DcsPassthrough => State::DcsPassthrough,
        St::Escape => State::Escape,
        St::EscapeIntermediate => State::EscapeIntermediate,
        St::Ground => State::Ground,
        St::OscString => State::OscString,
        St::SosPmApcString => State::SosPmApcString,
        St::Utf8 => State::Utf8,
    }
}

fn real_action(a: Ac) -> Action {
    match a {
        Ac::Nop => Action::Nop,
        Ac::Clear => Action::Clear,
        Ac::Collect => Action::Collect,
        Ac::CsiDispatch => Action::CsiDispatch,
        Ac::EscDispatch => Action::EscDispatch,
        Ac::Execute => Action::Execute,
        Ac::Hook => Action::Hook,
        Ac::Ignore => Action::Ignore,
        Ac::OscEnd => Action::OscEnd,
        Ac::OscPut => Action::OscPut,
        Ac::OscStart => Action::OscStart,
        Ac::Param => Action::Param,
        Ac::Print => Action::Print,
        Ac::Put => Action::Put,
        Ac::Unhook => Action::Unhook,
        Ac::BeginUtf8 => Action::BeginUtf8,
    }
}

fn check_pair(si: usize, b: u8) -> Result<(), String> {
    let s = vt::ALL_STATES[si];
    let (ns, a) = vt::transition(s, b);
    let want = (
        ns.map(real_state).unwrap_or(State::Anywhere),
        real_action(a),
    );
    let got = state_change(real_state(s), b);
    // The Utf8 pseudo-state is not part of Williams' machine and the parser never looks its row up
    // (it hands the bytes of a character to its UTF-8 decoder): what `state_change` answers there is
    // not pinned by the property. It must not panic; nothing else is asserted.
    if s == St::Utf8 {
        return Ok(());
    }
    // `Nop` and `Ignore` are two names for "no callback, nothing stored": which of them the table
    // holds for a byte that is swallowed is not observable through the parser
    let quiet = |x: (State, Action)| (x.0, if x.1 == Action::Ignore { Action::Nop } else { x.1 });
    if quiet(got) != quiet(want) {
        return Err(format!(
            "state_change({:?}, {:#04x}) = {:?}, reference machine gives {:?}",
            s, b, got, want
        ));
    }
    Ok(())
}




/// Three times out of four the generated prefix is cut at one of its
/// sequence-interior positions, so that CAN/SUB arrives inside a sequence.
/// A pure function of the bytes, so that shrinking and replay agree.
fn effective_prefix(bytes: &[u8]) -> &[u8] {
    let cuts = gen::interior_cuts(bytes);
    let d = digest(bytes);
    if cuts.is_empty() || d % 4 == 0 {
        bytes
    } else {
        &bytes[..cuts[(d / 4) as usize % cuts.len()]]
    }
}

fn run(args: &Args, rep: &mut Report) {
    let tier = args.tier;
    rep.assume("R-VT for bytes >= 0x80 is transcribed from the pinned behaviour (docs: 'some 8-bit codes are still supported'); for 0x00-0x7f it follows Williams' diagram");

    // A
    let accs = rt::par(16, |w| {
        let mut acc = Acc::new();
        for b in 0..=255u8 {
            acc.eval();
            acc.nontrivial_distinct();
            if let Err(m) = check_pair(w, b) {
                acc.fail("transition-table", json!({"state": w, "byte": b}), m);
            }
        }
        acc.samples.push(json!({"state": format!("{:?}", vt::ALL_STATES[w]), "byte": 0x1b}));
        acc
    });
    rep.add("transition-table", true, "16 states x 256 bytes (the row of the Utf8 pseudo-state, which the parser never consults, is only required not to panic)", accs);

    // B
    let full = gen::as_symbols(gen::ALPHA_FULL);
    let full: Vec<&[u8]> = full.iter().map(|v| v.as_slice()).collect();
    let sub = gen::as_symbols(gen::ALPHA_SUB);
    let sub: Vec<&[u8]> = sub.iter().map(|v| v.as_slice()).collect();
    let body = |s: &[u8], acc: &mut Acc| -> Result<(), String> {
        if check_events(s)? {
            acc.nontrivial_distinct();
            acc.sample(|| vcore::drive::hex_case(s));
        }
        Ok(())
    };
    let lens_full: &[usize] = tier.pick(&[0, 1, 2, 3], &[0, 1, 2, 3, 4]);
    let lens_sub: &[usize] = tier.pick(&[4], &[5, 6]);
    rep.add(
        "enum-full-alphabet",
        true,
        &format!("all strings of lengths {:?} over {} class representatives", lens_full, full.len()),
        enum_par("enum-full-alphabet", &full, lens_full, body),
    );
    rep.add(
        "enum-sub-alphabet",
        true,
        &format!("all strings of lengths {:?} over {} symbols", lens_sub, sub.len()),
        enum_par("enum-sub-alphabet", &sub, lens_sub, body),
    );
    // whole characters / introducers as symbols: reaches length-6..8 structures
    let strs: Vec<&[u8]> = gen::ALPHA_STR.to_vec();
    let lens_str: &[usize] = tier.pick(&[4], &[5, 6]);
    rep.add(
        "enum-symbol-alphabet",
        true,
        &format!("all strings of {:?} symbols over {} characters/introducers", lens_str, strs.len()),
        enum_par("enum-symbol-alphabet", &strs, lens_str, body),
    );

    // C
    let n = tier.pick(30_000, 1_500_000);
    rep.add(
        "grammar-streams",
        false,
        "G-STREAM, all classes, 0..40 items",
        stream_par(
            "grammar-streams",
            args.seed,
            n,
            StreamCfg::ALL,
            || Just(()),
            |bytes, _, _| match check_events(bytes) {
                Ok(nt) => Verdict::ok(nt.then(|| digest(bytes))),
                Err(m) => Verdict {
                    result: Err(m),
                    nontrivial: None,
                },
            },
            |_| Value::Null,
        ),
    );

    // D
    let n = tier.pick(20_000, 600_000);
    rep.add(
        "grammar-huge",
        false,
        "G-STREAM (0..8 items) with one printable run of 64..200 KiB (16-bit length boundaries)",
        vcore::drive::huge_par(
            "grammar-huge",
            args.seed,
            tier.pick(100, 5_000),
            StreamCfg::ALL,
            || Just(()),
            |bytes, _, _| match check_events(bytes) {
                Ok(_) => Verdict::ok(Some(digest(bytes))),
                Err(m) => Verdict { result: Err(m), nontrivial: None },
            },
            |_| Value::Null,
        ),
    );
    rep.add(
        "can-sub-restart",
        false,
        "prefix history (G-STREAM, possibly ending inside any state) . CAN|SUB . rest",
        stream_par(
            "can-sub-restart",
            args.seed,
            n,
            StreamCfg { max_items: 12, ..StreamCfg::ALL },
            || (gen::stream(StreamCfg { max_items: 12, ..StreamCfg::ALL }), prop::bool::ANY),
            |prefix, (rest, sub), acc| {
                let prefix = effective_prefix(prefix);
                let x = if *sub { 0x1a } else { 0x18 };
                let rest = gen::render(rest);
                acc.class(&format!("prefix-ends-in-{:?}", vt::state_after(prefix)));
                match check_cansub(prefix, x, &rest) {
                    Ok(nt) => Verdict::ok(nt.then(|| {
                        let mut k = prefix.to_vec();
                        k.push(x);
                        k.extend_from_slice(&rest);
                        digest(&k)
                    })),
                    Err(m) => Verdict {
                        result: Err(m),
                        nontrivial: None,
                    },
                }
            },
            |(rest, sub)| json!({"rest_hex": rt::hex(&gen::render(rest)), "x": if *sub {0x1a} else {0x18}}),
        ),
    );
    // D, exhaustive flavour: every state-reaching prefix from a fixed list x every short rest
    {
        let prefixes: Vec<&[u8]> = vec![
            b"", b"a", b"\x1b", b"\x1b#", b"\x1b[", b"\x1b[1", b"\x1b[1;2:3", b"\x1b[?", b"\x1b[1 ",
            b"\x1b[1 2", b"\x1bP", b"\x1bP1;2", b"\x1bP1$", b"\x1bP1$1", b"\x1bPq", b"\x1bPqabc",
            b"\x1b]", b"\x1b]0;ti;tle", b"\x1bX", b"\x1b^x", b"\x1b_y", b"\xc3", b"\xe2\x82",
            b"\xf0\x9f\x98", b"\x1b[1;2;3;4;5;6;7;8;9;10;11;12;13;14;15;16;17;18;19;20;21;22;23;24;25;26;27;28;29;30;31;32;33",
            b"\x1b]1;2;3;4;5;6;7;8;9;10;11;12;13;14;15;16;17;18",
        ];
        let rests = gen::as_symbols(gen::ALPHA_SUB);
        let rests: Vec<&[u8]> = rests.iter().map(|v| v.as_slice()).collect();
        let np = prefixes.len();
        let accs = rt::par(np, |w| {
            let mut acc = Acc::new();
            for x in [0x18u8, 0x1a] {
                for len in 0..=tier.pick(2, 3) {
                    vcore::drive::enum_strings(&rests, len, 0, 1, |rest| {
                        acc.eval();
                        match rt::guarded(|| check_cansub(prefixes[w], x, rest)) {
                            Ok(nt) => {
                                if nt {
                                    acc.nontrivial_distinct();
                                }
                                true
                            }
                            Err(m) => {
                                acc.fail(
                                    "can-sub-restart",
                                    json!({"hex": rt::hex(prefixes[w]), "aux": {"rest_hex": rt::hex(rest), "x": x}}),
                                    m,
                                );
                                false
                            }
                        }
                    });
                }
            }
            acc
        });
        rep.add(
            "can-sub-restart-enum",
            true,
            "26 prefixes reaching every parser state x {CAN,SUB} x all rests of length <= 2 (3 thorough) over the sub-alphabet",
            accs,
        );
    }

    // E
    let n = tier.pick(10_000, 200_000);
    rep.add(
        "clone-midstream",
        false,
        "G-STREAM input, parser cloned at a generated offset",
        stream_par(
            "clone-midstream",
            args.seed,
            n,
            StreamCfg { max_items: 15, ..StreamCfg::ALL },
            || any::<prop::sample::Index>(),
            |bytes, ix, _| {
                let split = if bytes.is_empty() { 0 } else { ix.index(bytes.len() + 1) };
                match check_clone(bytes, split) {
                    Ok(nt) => Verdict::ok(nt.then(|| digest(bytes) ^ split as u64)),
                    Err(m) => Verdict {
                        result: Err(m),
                        nontrivial: None,
                    },
                }
            },
            |ix| json!({"split_index_of_len_plus_1": ix.index(1 << 20)}),
        ),
    );
    if args.tier == vcore::rt::Tier::Thorough {
        checks::fuzzrun::campaign(rep, args, "parser", 250000, checks::oracle::fuzz_parser);
    }
}

fn replay(sub: &str, case: &Value) -> Result<(), String> {
    if sub.starts_with("libfuzzer-") {
        return checks::oracle::fuzz_parser(&vcore::drive::case_bytes(case));
    }
    match sub {
        "transition-table" => {
            let s = case["state"].as_u64().unwrap_or(0) as usize;
            let b = case["byte"].as_u64().unwrap_or(0) as u8;
            check_pair(s.min(15), b)
        }
        "can-sub-restart" | "can-sub-restart-enum" => {
            let full = case_bytes(case);
            let prefix = if sub == "can-sub-restart" && case.get("text").is_some() { effective_prefix(&full).to_vec() } else { full };
            let rest = rt::unhex(case["aux"]["rest_hex"].as_str().unwrap_or(""));
            let x = case["aux"]["x"].as_u64().unwrap_or(0x18) as u8;
            check_cansub(&prefix, x, &rest).map(|_| ())
        }
        "clone-midstream" => {
            let bytes = case_bytes(case);
            // replay every split point: the case is small after shrinking
            for split in 0..=bytes.len() {
                check_clone(&bytes, split)?;
            }
            Ok(())
        }
        _ => check_events(&case_bytes(case)).map(|_| ()),
    }
}

fn main() {
    rt::quiet_panics();
    rt::main("C02", RULE, run, &replay)
}
