//! C06 — the strip stream keeps the Write contract under short writes and errors.
use checks::real::strip_bytes_vec;
use proptest::prelude::*;
use serde::{Deserialize, Serialize};
use serde_json::{json, Value};
use std::io::{ErrorKind, IoSlice, Write};
use vcore::drive::{prop_par, Verdict};
use vcore::fault::{self, Resp, Scripted};
use vcore::gen::{self, StreamCfg};
use vcore::rt::{self, digest_str, esc, Acc, Args, Report};

const RULE: &str = "A case is a history: (input, inner-writer script, driver, stream kind). Exhaustive: every input of 1..2 (thorough 3) symbols over an escape-rich symbol alphabet x every script of depth <= 3 (thorough 4) over {Accept 0,1,2,3, All, Interrupted, WouldBlock, Other} x drivers {write loop, write_vectored loop, write_all whole / in chunks, write! with several fragments and literals, write! with a failing Display, write! with a Display that keeps writing after a failed fragment} x {StripStream<Box<dyn Write>>, AutoStream::never(Box<dyn Write>)}. Random: long grammar streams x random scripts up to 40 responses. Injected errors are represented as io::Error::new(kind, ..), io::Error::from(kind) or io::Error::from_raw_os_error(EINTR/EAGAIN), by history. Oracle after every call: count <= buffer length; bytes accepted by the inner writer == strip(input[..consumed]); an Err carries the kind the inner writer returned in that call; Ok(0) only when the inner writer refused; at the end of a protocol-following write loop the inner writer holds exactly strip(input); write_all/write! return Ok only if everything was delivered and Err with the injected kind (WriteZero for a zero-length accept) otherwise. Non-trivial = the script produced at least one short count or error while visible bytes were pending (distinct by history).";

#[derive(Clone, Copy, Debug, PartialEq, Eq, Serialize, Deserialize)]
enum Driver {
    Write,
    Vectored,
    WriteAll,
    /// write! of a Display that hands every character to Formatter::write_char (what `{}` of a
    /// `char`, or a non-ASCII fill character, does)
    FmtChars,
    Fmt,
    FmtLiteral,
    FmtFailing,
    /// a Display that keeps writing its remaining fragments after one of them failed
    /// and returns the first error afterwards
    FmtSloppy,
    /// write! whose format string is the bare literal #param of vcore::lits (the input)
    FmtConst,
}

#[derive(Clone, Debug, Serialize, Deserialize)]
struct Hist {
    hex: String,
    script: Vec<Resp>,
    driver: Driver,
    via_auto: bool,
    /// driver parameter: vectored split / write_all chunk size / fmt split
    param: u64,
    /// representation of injected errors (vcore::fault::ErrRepr::of)
    #[serde(default)]
    repr: u8,
}

fn make_stream(via_auto: bool, inner: Scripted) -> Box<dyn Write> {
    let inner: Box<dyn Write> = Box::new(inner);
    if via_auto {
        Box::new(anstream::AutoStream::never(inner))
    } else {
        Box::new(anstream::StripStream::new(inner))
    }
}

fn split3(s: &str, param: u64) -> (&str, &str, &str) {
    let bounds: Vec<usize> = (0..=s.len()).filter(|i| s.is_char_boundary(*i)).collect();
    let n = bounds.len() as u64;
    let i = bounds[(param % n) as usize];
    let j = bounds[((param / n.max(1)) % n) as usize];
    let (i, j) = (i.min(j), i.max(j));
    (&s[..i], &s[i..j], &s[j..])
}

struct Failing<'a>(&'a str);
impl std::fmt::Display for Failing<'_> {
    fn fmt(&self, f: &mut std::fmt::Formatter<'_>) -> std::fmt::Result {
        f.write_str(self.0)?;
        Err(std::fmt::Error)
    }
}

struct Chars<'a>(&'a str);
impl std::fmt::Display for Chars<'_> {
    fn fmt(&self, f: &mut std::fmt::Formatter<'_>) -> std::fmt::Result {
        use std::fmt::Write as _;
        for ch in self.0.chars() {
            f.write_char(ch)?;
        }
        Ok(())
    }
}

struct Sloppy<'a>(&'a str, &'a str, &'a str);
impl std::fmt::Display for Sloppy<'_> {
    fn fmt(&self, f: &mut std::fmt::Formatter<'_>) -> std::fmt::Result {
        let r1 = f.write_str(self.0);
        let r2 = f.write_str(self.1);
        let r3 = f.write_str(self.2);
        r1.and(r2).and(r3)
    }
}

fn prefix_of(a: &[u8], b: &[u8]) -> bool {
    b.len() >= a.len() && &b[..a.len()] == a
}

/// kind that the last inner call of this outer call produced, if it was a
/// fault (`calls_before` = number of inner calls before the outer call)
fn inner_faults(log: &fault::Log, calls_before: usize) -> Vec<Result<usize, ErrorKind>> {
    log.calls[calls_before..]
        .iter()
        .filter(|c| match c.resp {
            Ok(n) => n < c.buf.len(),
            Err(_) => true,
        })
        .map(|c| c.resp)
        .collect()
}

fn check_history(input: &[u8], h: &Hist) -> Result<bool, String> {
    let (mut scripted, log) = Scripted::new(&h.script);
    scripted.repr = fault::ErrRepr::of(h.repr);
    let mut s = make_stream(h.via_auto, scripted);
    let full = strip_bytes_vec(input);
    let ctx = |msg: String| format!("{msg} [input {} script {:?} driver {:?} via_auto {}]", esc(input), h.script, h.driver, h.via_auto);
    match h.driver {
        Driver::Write | Driver::Vectored => {
            let mut c = 0usize;
            let mut guard = 0;
            let mut hard_stop = false;
            // inner errors that a call returning Ok has not passed on (it had made progress): the
            // stream may drop them or report them from a later call - "surfaces to the caller" does
            // not say from which one
            let mut pending: Vec<ErrorKind> = vec![];
            while c < input.len() {
                guard += 1;
                if guard > 4 * input.len() + h.script.len() + 16 {
                    return Err(ctx("write loop makes no progress".into()));
                }
                let rest = &input[c..];
                let calls_before = log.borrow().calls.len();
                let res = if h.driver == Driver::Write {
                    s.write(rest)
                } else {
                    // a call without any buffer, or with only empty ones, consumes nothing and
                    // must not disturb the stream
                    let degenerate = if guard % 2 == 1 { s.write_vectored(&[]) } else { s.write_vectored(&[IoSlice::new(&[]), IoSlice::new(&[])]) };
                    let late = match &degenerate {
                        Err(e) => pending.iter().position(|k| *k == e.kind()),
                        _ => None,
                    };
                    if let Some(i) = late {
                        // a held-back error reported now; nothing may have been written
                        pending.remove(i);
                        if log.borrow().calls.len() != calls_before {
                            return Err(ctx("write_vectored without data made inner calls".into()));
                        }
                        if degenerate.as_ref().err().map(|e| e.kind()) != Some(ErrorKind::Interrupted) {
                            hard_stop = true;
                            break;
                        }
                        continue;
                    }
                    if !matches!(degenerate, Ok(0)) || log.borrow().calls.len() != calls_before {
                        return Err(ctx(format!("write_vectored without data returned {degenerate:?} and made {} inner calls", log.borrow().calls.len() - calls_before)));
                    }
                    let k = 1 + (h.param as usize % rest.len());
                    let bufs = [IoSlice::new(&[]), IoSlice::new(&rest[..k]), IoSlice::new(&[]), IoSlice::new(&rest[k..])];
                    s.write_vectored(&bufs)
                };
                let faults = inner_faults(&log.borrow(), calls_before);
                match &res {
                    Ok(n) => {
                        if *n > rest.len() {
                            return Err(ctx(format!("write returned {n} for a buffer of {} bytes", rest.len())));
                        }
                        if *n == 0 && faults.is_empty() {
                            return Err(ctx("write returned Ok(0) although the inner writer never refused anything".into()));
                        }
                        c += n;
                        pending.extend(faults.iter().filter_map(|f| f.err()));
                    }
                    Err(e) => {
                        let kind = e.kind();
                        if !faults.iter().any(|f| *f == Err(kind)) {
                            match pending.iter().position(|k| *k == kind) {
                                Some(i) => {
                                    pending.remove(i);
                                }
                                None => return Err(ctx(format!("write returned Err({kind:?}) but the inner writer returned {:?} in this call and no error of that kind was held back earlier", faults))),
                            }
                        }
                    }
                }
                let d = log.borrow().accepted.clone();
                let want = strip_bytes_vec(&input[..c]);
                if d != want {
                    return Err(ctx(format!(
                        "after a call returning {:?} the caller has {c} bytes consumed, the inner writer holds {} but strip(input[..{c}]) is {}",
                        res.as_ref().map_err(|e| e.kind()),
                        esc(&d),
                        esc(&want)
                    )));
                }
                match res {
                    Ok(0) => {
                        hard_stop = true;
                        break;
                    }
                    Ok(_) => {}
                    Err(e) if e.kind() == ErrorKind::Interrupted => {}
                    Err(_) => {
                        hard_stop = true;
                        break;
                    }
                }
            }
            if !hard_stop {
                let d = log.borrow().accepted.clone();
                if d != full {
                    return Err(ctx(format!("protocol finished but the inner writer holds {} instead of {}", esc(&d), esc(&full))));
                }
                let before = log.borrow().flushes;
                s.flush().map_err(|e| ctx(format!("flush failed: {e}")))?;
                // how often the stream flushes on its own is not part of the property
                if log.borrow().flushes < before + 1 {
                    return Err(ctx("flush was not forwarded to the inner writer".into()));
                }
            }
        }
        Driver::WriteAll => {
            let chunk = if h.param == 0 { input.len().max(1) } else { h.param as usize };
            let mut c = 0usize;
            for piece in input.chunks(chunk) {
                let calls_before = log.borrow().calls.len();
                let res = s.write_all(piece);
                let faults = inner_faults(&log.borrow(), calls_before);
                let hard: Vec<_> = faults.iter().filter(|f| !matches!(f, Err(ErrorKind::Interrupted)) && !matches!(f, Ok(n) if *n > 0)).collect();
                let d = log.borrow().accepted.clone();
                match res {
                    Ok(()) => {
                        if !hard.is_empty() {
                            return Err(ctx(format!("write_all returned Ok although the inner writer answered {:?}", hard)));
                        }
                        c += piece.len();
                        let want = strip_bytes_vec(&input[..c]);
                        if d != want {
                            return Err(ctx(format!("write_all returned Ok but the inner writer holds {} instead of {}", esc(&d), esc(&want))));
                        }
                    }
                    Err(e) => {
                        let kind = e.kind();
                        let expected = match hard.first() {
                            Some(Err(k)) => Some(*k),
                            Some(Ok(_)) => Some(ErrorKind::WriteZero),
                            None => None,
                        };
                        if expected != Some(kind) {
                            return Err(ctx(format!("write_all returned Err({kind:?}), the inner writer answered {:?}", faults)));
                        }
                        if !prefix_of(&d, &full) || !prefix_of(&strip_bytes_vec(&input[..c]), &d) {
                            return Err(ctx(format!("after a failed write_all the inner writer holds {} which is not a prefix of {}", esc(&d), esc(&full))));
                        }
                        break;
                    }
                }
            }
        }
        Driver::Fmt | Driver::FmtLiteral | Driver::FmtFailing | Driver::FmtSloppy | Driver::FmtConst | Driver::FmtChars => {
            let text = std::str::from_utf8(input).map_err(|_| "fmt driver needs UTF-8 input (harness bug)".to_owned())?;
            let (a, b, cc) = split3(text, h.param);
            let calls_before = 0;
            let (res, effective, display_failed) = match h.driver {
                Driver::Fmt => (write!(s, "{}{}{}", a, b, cc), text.to_owned(), false),
                Driver::FmtChars => (write!(s, "{}{}", Chars(a), Chars(&format!("{b}{cc}"))), text.to_owned(), false),
                Driver::FmtLiteral => (
                    write!(s, "{}\x1b[1mX\x1b[0m{}<{}", a, b, cc),
                    format!("{a}\x1b[1mX\x1b[0m{b}<{cc}"),
                    false,
                ),
                Driver::FmtSloppy => (write!(s, "{}", Sloppy(a, b, cc)), text.to_owned(), false),
                Driver::FmtConst => {
                    let i = h.param as usize;
                    if vcore::lits::LITS.get(i).map(|l| l.as_bytes()) != Some(input) {
                        return Err("bad case: the input of FmtConst must be literal #param".into());
                    }
                    (vcore::lits::write_lit(&mut *s, i, false), text.to_owned(), false)
                }
                _ => (write!(s, "{}{}{}", a, Failing(b), cc), format!("{a}{b}"), true),
            };
            let full = strip_bytes_vec(effective.as_bytes());
            let faults = inner_faults(&log.borrow(), calls_before);
            let hard: Vec<_> = faults.iter().filter(|f| !matches!(f, Err(ErrorKind::Interrupted)) && !matches!(f, Ok(n) if *n > 0)).collect();
            let d = log.borrow().accepted.clone();
            match res {
                Ok(()) => {
                    if display_failed {
                        return Err(ctx("write! returned Ok although a Display implementation failed".into()));
                    }
                    if !hard.is_empty() {
                        return Err(ctx(format!("write! returned Ok although the inner writer answered {:?}", hard)));
                    }
                    if d != full {
                        return Err(ctx(format!("write! returned Ok but the inner writer holds {} instead of {}", esc(&d), esc(&full))));
                    }
                }
                Err(e) => {
                    let kind = e.kind();
                    let expected = match hard.first() {
                        Some(Err(k)) => Some(*k),
                        Some(Ok(_)) => Some(ErrorKind::WriteZero),
                        None if display_failed => Some(ErrorKind::Other),
                        None => None,
                    };
                    let any_hard_kind = hard.iter().any(|f| match f {
                        Err(k) => *k == kind,
                        Ok(_) => kind == ErrorKind::WriteZero,
                    });
                    let ok_kind = if h.driver == Driver::FmtSloppy { any_hard_kind } else { expected == Some(kind) };
                    if !ok_kind {
                        return Err(ctx(format!("write! returned Err({kind:?}), the inner writer answered {:?} (display failed: {display_failed})", faults)));
                    }
                    if h.driver != Driver::FmtSloppy && !prefix_of(&d, &full) {
                        return Err(ctx(format!("after a failed write! the inner writer holds {} which is not a prefix of {}", esc(&d), esc(&full))));
                    }
                }
            }
        }
    }
    let faults = log.borrow().faults;
    Ok(faults > 0)
}

/// flush errors surface with their kind
fn check_flush(via_auto: bool, kind: ErrorKind, repr: u8) -> Result<(), String> {
    let (mut scripted, log) = Scripted::new(&[]);
    scripted.flush_error = Some(kind);
    scripted.repr = fault::ErrRepr::of(repr);
    let mut s = make_stream(via_auto, scripted);
    s.write_all(b"a\x1b[1mb").map_err(|e| format!("write_all failed: {e}"))?;
    match s.flush() {
        Err(e) if e.kind() == kind => {}
        other => return Err(format!("flush returned {:?}, inner flush failed with {kind:?}", other.map_err(|e| e.kind()))),
    }
    if log.borrow().flushes < 1 || log.borrow().accepted != b"ab" {
        return Err("flush not forwarded / data wrong".into());
    }
    Ok(())
}

const SYMBOLS: &[&[u8]] = &[
    b"a", b"bc", b"\xc3\xa9", b"\n", b"\x1b[1m", b"\x1b[", b"\x1b", b"\x1b]0;t\x07", b"\x07", b"\xc3", b"defg", b"\x1b[38;5;1m",
];

fn drivers_for(input: &[u8]) -> Vec<(Driver, u64, bool)> {
    let mut v = vec![
        (Driver::Write, 0, false),
        (Driver::Write, 0, true),
        (Driver::Vectored, 0, false),
        (Driver::Vectored, 1, false),
        (Driver::WriteAll, 0, false),
        (Driver::WriteAll, 2, false),
        (Driver::WriteAll, 0, true),
    ];
    if std::str::from_utf8(input).is_ok() {
        v.push((Driver::Fmt, 1, false));
        v.push((Driver::Fmt, 7, true));
        v.push((Driver::FmtLiteral, 2, false));
        v.push((Driver::FmtFailing, 5, false));
        v.push((Driver::FmtChars, 4, false));
        v.push((Driver::FmtChars, 9, true));
        v.push((Driver::FmtSloppy, 3, false));
        v.push((Driver::FmtSloppy, 11, true));
    }
    v
}

fn hist_json(input: &[u8], h: &Hist) -> Value {
    let mut v = serde_json::to_value(h).unwrap();
    v["text"] = json!(esc(input));
    v
}

fn run(args: &Args, rep: &mut Report) {
    let tier = args.tier;
    rep.level("fault_enumeration");
    // inputs: all strings of 1..k symbols
    let mut inputs: Vec<Vec<u8>> = vec![];
    for len in 1..=tier.pick(2usize, 3) {
        vcore::drive::enum_strings(SYMBOLS, len, 0, 1, |s| {
            inputs.push(s.to_vec());
            true
        });
    }
    let mut scripts: Vec<Vec<Resp>> = vec![];
    for d in 0..=tier.pick(3usize, 4) {
        scripts.extend(fault::scripts_of_depth(d));
    }
    let n = rt::workers();
    let accs = rt::par(n, |w| {
        let mut acc = Acc::new();
        for (i, input) in inputs.iter().enumerate() {
            if i % n != w {
                continue;
            }
            for (driver, param, via_auto) in drivers_for(input) {
                for script in &scripts {
                    let h = Hist { hex: rt::hex(input), script: script.clone(), driver, via_auto, param, repr: (script.len() + script.iter().filter(|r| r.error_kind().is_some()).count()) as u8 };
                    acc.eval();
                    match rt::guarded(|| check_history(input, &h)) {
                        Ok(nt) => {
                            if nt {
                                acc.nontrivial_distinct();
                                acc.sample(|| hist_json(input, &h));
                            }
                        }
                        Err(m) => {
                            acc.fail("exhaustive-scripts", hist_json(input, &h), m);
                            return acc;
                        }
                    }
                }
            }
        }
        acc
    });
    // formatted writes whose format string is a bare literal
    let accs_lit = rt::par(n, |w| {
        let mut acc = Acc::new();
        for (i, lit) in vcore::lits::LITS.iter().enumerate() {
            if i % n != w {
                continue;
            }
            for via_auto in [false, true] {
                for script in &scripts {
                    let h = Hist { hex: rt::hex(lit.as_bytes()), script: script.clone(), driver: Driver::FmtConst, via_auto, param: i as u64, repr: (i + script.len()) as u8 };
                    acc.eval();
                    match rt::guarded(|| check_history(lit.as_bytes(), &h)) {
                        Ok(nt) => {
                            if nt {
                                acc.nontrivial_distinct();
                                acc.sample(|| hist_json(lit.as_bytes(), &h));
                            }
                        }
                        Err(m) => {
                            acc.fail("literal-format-strings", hist_json(lit.as_bytes(), &h), m);
                            return acc;
                        }
                    }
                }
            }
        }
        acc
    });
    rep.add(
        "literal-format-strings",
        true,
        &format!("write!(stream, <literal>) for {} escape-rich literals x {} scripts x 2 stream kinds", vcore::lits::LITS.len(), scripts.len()),
        accs_lit,
    );
    rep.add(
        "exhaustive-scripts",
        true,
        &format!("{} inputs x {} scripts (all of depth <= {}) x up to 13 driver configurations", inputs.len(), scripts.len(), tier.pick(3, 4)),
        accs,
    );

    // flush
    let mut acc = Acc::new();
    for via_auto in [false, true] {
        for kind in [ErrorKind::Interrupted, ErrorKind::WouldBlock, ErrorKind::Other, ErrorKind::BrokenPipe] {
            for repr in 0..3u8 {
                acc.eval();
                acc.nontrivial_distinct();
                if let Err(m) = rt::guarded(|| check_flush(via_auto, kind, repr)) {
                    acc.fail("flush-errors", json!({"via_auto": via_auto, "kind": format!("{kind:?}"), "repr": repr}), m);
                }
            }
        }
    }
    acc.samples.push(json!({"flush_error": "BrokenPipe"}));
    rep.add("flush-errors", true, "2 stream kinds x 4 error kinds x 3 representations of the error (custom, simple, OS error number)", vec![acc]);

    // random long inputs x random scripts
    let strat = |cfg: StreamCfg, utf8: bool| {
        move || {
            (
                gen::stream(cfg),
                proptest::collection::vec(fault::resp_strategy(), 0..40),
                if utf8 {
                    prop_oneof![Just(Driver::Fmt), Just(Driver::FmtChars), Just(Driver::FmtLiteral), Just(Driver::FmtFailing), Just(Driver::FmtSloppy), Just(Driver::Write), Just(Driver::WriteAll)].boxed()
                } else {
                    prop_oneof![Just(Driver::Write), Just(Driver::Vectored), Just(Driver::WriteAll)].boxed()
                },
                any::<bool>(),
                0u64..64,
            )
                .prop_map(|(items, script, driver, via_auto, param)| {
                    let bytes = gen::render(&items);
                    // the write! drivers need text; never let a generator slip become an alarm
                    let driver = if matches!(driver, Driver::Fmt | Driver::FmtChars | Driver::FmtLiteral | Driver::FmtFailing | Driver::FmtSloppy) && std::str::from_utf8(&bytes).is_err() { Driver::WriteAll } else { driver };
                    (bytes.clone(), Hist { hex: rt::hex(&bytes), script, driver, via_auto, param, repr: (param % 3) as u8 })
                })
        }
    };
    let body = |(input, h): &(Vec<u8>, Hist), _: &mut Acc| match check_history(input, h) {
        Ok(nt) => Verdict::ok(nt.then(|| digest_str(&serde_json::to_string(h).unwrap()))),
        Err(m) => Verdict { result: Err(m), nontrivial: None },
    };
    let tojson = |(input, h): &(Vec<u8>, Hist)| hist_json(input, h);
    rep.add(
        "random-histories-bytes",
        false,
        "G-STREAM (all classes, 0..30 items) x random scripts of 0..40 responses x write / write_vectored / write_all",
        prop_par("random-histories-bytes", args.seed, tier.pick(40_000, 1_000_000), strat(StreamCfg { max_items: 30, ..StreamCfg::ALL }, false), body, tojson),
    );
    // buffers of 64 KiB and more in one call
    let huge = |utf8: bool| {
        move || {
            (
                gen::stream(StreamCfg { max_items: 8, ..(if utf8 { StreamCfg::UTF8 } else { StreamCfg::ALL }) }),
                gen::huge_text(false),
                any::<u16>(),
                proptest::collection::vec(fault::resp_strategy(), 0..6),
                if utf8 {
                    prop_oneof![Just(Driver::Fmt), Just(Driver::FmtChars), Just(Driver::FmtLiteral), Just(Driver::Write), Just(Driver::WriteAll)].boxed()
                } else {
                    prop_oneof![Just(Driver::Write), Just(Driver::Vectored), Just(Driver::WriteAll)].boxed()
                },
                any::<bool>(),
                prop_oneof![Just(0u64), Just(1u64), Just(65_536u64), 0u64..64],
            )
                .prop_map(|(mut items, big, frac, script, driver, via_auto, param)| {
                    gen::insert_huge(&mut items, big, frac);
                    let bytes = gen::render(&items);
                    let driver = if matches!(driver, Driver::Fmt | Driver::FmtChars | Driver::FmtLiteral) && std::str::from_utf8(&bytes).is_err() { Driver::WriteAll } else { driver };
                    // write_all in chunks: whole, or 64 KiB pieces (param 1 would mean single bytes: too slow here)
                    let param = if driver == Driver::WriteAll && param != 65_536 { 0 } else { param };
                    // write_vectored hands over its first non-empty buffer only: keep that one large
                    let param = if driver == Driver::Vectored { [65_535u64, 65_536, 100_000][param as usize % 3] } else { param };
                    (bytes.clone(), Hist { hex: rt::hex(&bytes), script, driver, via_auto, param, repr: (param % 3) as u8 })
                })
        }
    };
    let body_huge = |(input, h): &(Vec<u8>, Hist), _: &mut Acc| match { let t0 = std::time::Instant::now(); let r = check_history(input, h); if std::env::var_os("C06_TIMING").is_some() { eprintln!("TIMING {:?} {:?} via_auto={} param={} len={} script={:?}", t0.elapsed(), h.driver, h.via_auto, h.param, input.len(), h.script); } r } {
        // every case has a buffer beyond 64 KiB: that is the point of this sub-check
        Ok(_) => Verdict::ok(Some(digest_str(&format!("{:?}{:?}{}{}{}", h.script, h.driver, h.via_auto, h.param, input.len())))),
        Err(m) => Verdict { result: Err(m), nontrivial: None },
    };
    let tojson_huge = |(input, h): &(Vec<u8>, Hist)| json!({"hex": h.hex, "script": h.script, "driver": h.driver, "via_auto": h.via_auto, "param": h.param, "length": input.len()});
    rep.add(
        "huge-buffers",
        false,
        "G-STREAM (0..8 items) with one printable run of 64 KiB..200 KiB (16-bit boundaries) x scripts of 0..6 responses x write / write_vectored / write_all (whole, 64 KiB pieces) / write!",
        {
            let mut a = prop_par("huge-buffers", args.seed, tier.pick(150, 6_000), huge(false), body_huge, tojson_huge);
            a.extend(prop_par("huge-buffers-utf8", args.seed, tier.pick(150, 6_000), huge(true), body_huge, tojson_huge));
            a
        },
    );
    rep.add(
        "random-histories-utf8",
        false,
        "valid-UTF-8 G-STREAM x random scripts x write! drivers (plain, with literals, failing Display) / write / write_all",
        prop_par("random-histories-utf8", args.seed, tier.pick(40_000, 1_000_000), strat(StreamCfg { max_items: 30, ..StreamCfg::UTF8 }, true), body, tojson),
    );
}

fn replay(sub: &str, case: &Value) -> Result<(), String> {
    if sub == "flush-errors" {
        for via_auto in [false, true] {
            for kind in [ErrorKind::Interrupted, ErrorKind::WouldBlock, ErrorKind::Other, ErrorKind::BrokenPipe] {
                for repr in 0..3u8 {
                    check_flush(via_auto, kind, repr)?;
                }
            }
        }
        return Ok(());
    }
    let h: Hist = serde_json::from_value(case.clone()).map_err(|e| format!("bad case: {e}"))?;
    let input = rt::unhex(&h.hex);
    check_history(&input, &h).map(|_| ())
}

fn main() {
    rt::quiet_panics();
    rt::main("C06", RULE, run, &replay)
}
