//! C12 — the LS_COLORS parser applies SGR codes left to right.
use proptest::prelude::*;
use serde_json::{json, Value};
use vcore::drive::{prop_par, Verdict};
use vcore::rt::{self, digest_str, Acc, Args, Report};
use vcore::sgr::{self, MColor, MStyle};

const RULE: &str = "Inputs: exhaustively all ';'-lists of 1..3 codes over 0..=110 and every extended-colour form (38/48/58 ;5;n and ;2;r;g;b) in every position of short lists; seeded random well-formed lists of up to 40 codes with leading zeros, and long lists of 15..1027 fields around powers of two; out-of-range numbers congruent to a code modulo 2^8/2^16/2^32/2^64; malformed inputs (empty fields, signs, spaces, > 255, huge numbers, non-ASCII digits, trailing ';', arbitrary Unicode). Oracle: a reference fold of the SGR table of the property over the default style; None for '', '0', '00' and for anything that is not a list of decimal numbers <= 255. Excluded as undetermined (counted): an explicit '+'. A 38/48/58 that is not followed by a complete ;5;n / ;2;r;g;b (truncated at the end of the list, or followed by something else) must be accepted, but what it denotes is not asserted. Non-trivial = at least 2 codes, or a reset after a set, or a rejected input (distinct by input string).";

#[derive(Debug, PartialEq)]
enum Ref {
    Reject,
    NoStyle,
    Style(MStyle),
    /// a list of numbers in range, so it must be accepted - but what it denotes is not determined by
    /// the statement (an extended-colour introducer that is not followed by one of the two listed forms)
    AnyStyle(&'static str),
    Undetermined(&'static str),
}

fn parse_codes(s: &str) -> Result<Vec<u8>, Ref> {
    let mut codes = vec![];
    for f in s.split(';') {
        if let Some(rest) = f.strip_prefix('+') {
            if !rest.is_empty() && rest.bytes().all(|b| b.is_ascii_digit()) {
                return Err(Ref::Undetermined("explicit-plus"));
            }
        }
        if f.is_empty() || !f.bytes().all(|b| b.is_ascii_digit()) {
            return Err(Ref::Reject);
        }
        let t = f.trim_start_matches('0');
        if t.len() > 3 {
            return Err(Ref::Reject);
        }
        let v: u32 = if t.is_empty() { 0 } else { t.parse().unwrap() };
        if v > 255 {
            return Err(Ref::Reject);
        }
        codes.push(v as u8);
    }
    Ok(codes)
}

fn reference(s: &str) -> Ref {
    if s.is_empty() || s == "0" || s == "00" {
        return Ref::NoStyle;
    }
    let codes = match parse_codes(s) {
        Ok(c) => c,
        Err(r) => return r,
    };
    let mut st = MStyle::default();
    let mut i = 0;
    while i < codes.len() {
        let c = codes[i];
        match c {
            0 => st = MStyle::default(),
            1 => st.effects |= sgr::BOLD,
            2 => st.effects |= sgr::DIMMED,
            3 => st.effects |= sgr::ITALIC,
            4 => st.effects |= sgr::UNDERLINE,
            5 | 6 => st.effects |= sgr::BLINK,
            7 => st.effects |= sgr::INVERT,
            8 => st.effects |= sgr::HIDDEN,
            9 => st.effects |= sgr::STRIKETHROUGH,
            22 => st.effects &= !(sgr::BOLD | sgr::DIMMED),
            23 => st.effects &= !sgr::ITALIC,
            24 => st.effects &= !sgr::UNDERLINE,
            25 => st.effects &= !sgr::BLINK,
            27 => st.effects &= !sgr::INVERT,
            28 => st.effects &= !sgr::HIDDEN,
            29 => st.effects &= !sgr::STRIKETHROUGH,
            30..=37 => st.fg = Some(MColor::Ansi(c - 30)),
            90..=97 => st.fg = Some(MColor::Ansi(c - 90 + 8)),
            40..=47 => st.bg = Some(MColor::Ansi(c - 40)),
            100..=107 => st.bg = Some(MColor::Ansi(c - 100 + 8)),
            39 => st.fg = None,
            49 => st.bg = None,
            59 => st.ul = None,
            38 | 48 | 58 => {
                let rest = &codes[i + 1..];
                let col = match rest {
                    [5, n, ..] => {
                        i += 2;
                        Some(MColor::Idx(*n))
                    }
                    [2, r, g, b, ..] => {
                        i += 4;
                        Some(MColor::Rgb(*r, *g, *b))
                    }
                    // 38/48/58 not followed by a complete ;5;n or ;2;r;g;b: the statement lists only the
                    // two complete forms (an implementation may stop there, or ignore the introducer as an
                    // unknown code and go on)
                    [] | [5] | [2] | [2, _] | [2, _, _] => return Ref::AnyStyle("truncated-extended-colour"),
                    _ => return Ref::AnyStyle("malformed-extended-colour"),
                };
                match c {
                    38 => st.fg = col,
                    48 => st.bg = col,
                    _ => st.ul = col,
                }
            }
            _ => {}
        }
        i += 1;
    }
    Ref::Style(st)
}

fn check(s: &str, acc: &mut Acc) -> Result<bool, String> {
    let want = reference(s);
    if let Ref::Undetermined(why) = want {
        acc.class(&format!("excluded:{why}"));
        return Ok(false);
    }
    let got = anstyle_ls::parse(s);
    let ncodes = s.split(';').count();
    let mut nontrivial = ncodes >= 2;
    match (&got, &want) {
        (Some(_), Ref::AnyStyle(why)) => {
            acc.class(&format!("accepted-result-undetermined:{why}"));
            nontrivial = false;
        }
        (None, Ref::AnyStyle(why)) => {
            return Err(format!("parse({s:?}) = None but it is a list of numbers in 0-255 ({why}): it must be accepted"));
        }
        (None, Ref::Reject) => nontrivial = true,
        (None, Ref::NoStyle) => {}
        (Some(g), Ref::Style(w)) => {
            let gm = sgr::from_style(*g);
            // (palette colour k and 256-colour index k < 16 denote the same colour: `38;5;1` may come
            // back as the named red)
            if gm.canon() != w.canon() {
                return Err(format!("parse({s:?}) = [{}], applying the codes in order gives [{}]", gm.describe(), w.describe()));
            }
        }
        (Some(g), _) => {
            return Err(format!("parse({s:?}) = Some([{}]) but it must be None ({:?})", sgr::from_style(*g).describe(), want));
        }
        (None, Ref::Style(w)) => {
            return Err(format!("parse({s:?}) = None but the codes denote [{}]", w.describe()));
        }
        (_, Ref::Undetermined(_)) => unreachable!(),
    }
    Ok(nontrivial)
}

fn arb_code() -> BoxedStrategy<String> {
    prop_oneof![
        6 => (0u8..=110, 0usize..3).prop_map(|(c, z)| format!("{}{}", "0".repeat(z), c)),
        1 => (111u16..=255).prop_map(|c| c.to_string()),
        2 => (prop::sample::select(vec![38u8, 48, 58]), any::<u8>()).prop_map(|(t, n)| format!("{t};5;{n}")),
        2 => (prop::sample::select(vec![38u8, 48, 58]), any::<u8>(), any::<u8>(), any::<u8>()).prop_map(|(t, r, g, b)| format!("{t};2;{r};{g};{b}")),
        1 => (prop::sample::select(vec![38u8, 48, 58]), prop::sample::select(vec![0u8, 1, 2, 5, 38])).prop_map(|(t, n)| format!("{t};05;{n:03}")),
    ]
    .boxed()
}

fn arb_list() -> BoxedStrategy<String> {
    (proptest::collection::vec(arb_code(), 1..=40), prop_oneof![8 => Just(""), 1 => prop::sample::select(vec![";38", ";48;5", ";58;2", ";38;2;1", ";48;2;1;2"])])
        .prop_map(|(v, tail)| format!("{}{}", v.join(";"), tail))
        .boxed()
}

/// a number that is out of range but congruent to a meaningful code modulo a power of two
fn arb_wrapped() -> BoxedStrategy<String> {
    (prop::sample::select(vec![8u32, 16, 31, 32, 63, 64, 100]), 0u128..=255, 1u128..=3).prop_map(|(w, n, k)| ((k << w) + n).to_string()).boxed()
}

/// long lists: lengths (in fields) around powers of two, ending in a deciding code
fn arb_long_list() -> BoxedStrategy<String> {
    (
        prop::sample::select(vec![15usize, 16, 17, 31, 32, 33, 63, 64, 65, 127, 128, 129, 255, 256, 257, 511, 512, 513, 1023, 1024, 1025]),
        0usize..=2,
        proptest::collection::vec(arb_code(), 4..=16),
        prop_oneof![4 => arb_code(), 1 => Just("0".to_owned()), 1 => Just("256".to_owned()), 1 => Just("x".to_owned()), 1 => Just("".to_owned())],
    )
        .prop_map(|(len, extra, pool, last)| {
            // the pool's entries have 1..5 fields each; fill up to the wanted number of fields
            let want = len + extra - 1;
            let mut fields: Vec<&str> = Vec::new();
            let mut i = 0;
            while fields.len() < want {
                let e = &pool[(i * 5 + i / pool.len()) % pool.len()];
                i += 1;
                let nf = e.split(';').count();
                if fields.len() + nf <= want {
                    fields.extend(e.split(';'));
                } else {
                    fields.push("1");
                }
            }
            format!("{};{last}", fields.join(";"))
        })
        .boxed()
}

/// one insertion / deletion / replacement at a character boundary of a well-formed list
fn arb_mutated() -> BoxedStrategy<String> {
    (
        proptest::collection::vec(arb_code(), 1..=5).prop_map(|v| v.join(";")),
        any::<prop::sample::Index>(),
        0u8..3,
        prop::sample::select(vec![':', ';', ' ', '+', '-', '0', '9', 'a', 'm', 'é', '\t', '\n', ',', '.', '\u{0}', '\u{ff10}', '\u{1b}', '[']),
        prop::bool::weighted(0.3),
    )
        .prop_map(|(s, ix, kind, ch, at_end)| {
            let p = if at_end { s.len() } else { ix.index(s.len() + 1) };
            let mut t = s.clone();
            match kind {
                0 => t.insert(p, ch),
                1 => {
                    if p < t.len() {
                        t.remove(p);
                    } else {
                        t.pop();
                    }
                }
                _ => {
                    if p < t.len() {
                        t.remove(p);
                    }
                    t.insert(p.min(t.len()), ch);
                }
            }
            t
        })
        .boxed()
}

fn arb_malformed() -> BoxedStrategy<String> {
    let bad = prop::sample::select(vec![
        "", "-", "-1", " 1", "1 ", "256", "300", "999999999999", "99999999999999999999999", "١", "１", "1a", "a", "0x1", "1.0", ":", "1:2", "\u{0}", "é", " ", "+", "++1", "+-1", "1e2", "²",
    ]);
    (proptest::collection::vec(prop_oneof![6 => arb_code(), 2 => bad.prop_map(|s| s.to_owned()), 1 => arb_wrapped()], 1..=6), prop::sample::select(vec!["", ";", ";;", " "]), prop::sample::select(vec!["", ";", " "]))
        .prop_map(|(v, tail, head)| format!("{head}{}{tail}", v.join(";")))
        .boxed()
}

fn run(args: &Args, rep: &mut Report) {
    let tier = args.tier;
    let n = rt::workers();
    // exhaustive up to 3 codes over 0..=110
    let accs = rt::par(n, |w| {
        let mut acc = Acc::new();
        let go = |s: &str, acc: &mut Acc| -> bool {
            acc.eval();
            match rt::guarded(|| check(s, acc)) {
                Ok(nt) => {
                    if nt {
                        acc.nontrivial_distinct();
                        acc.sample(|| json!(s));
                    }
                    true
                }
                Err(m) => {
                    acc.fail("exhaustive-lists", json!(s), m);
                    false
                }
            }
        };
        for a in (0..=110u32).filter(|a| *a as usize % n == w) {
            if !go(&a.to_string(), &mut acc) {
                return acc;
            }
            // zero-padded spellings, alone and next to another code
            for z in 1..=5usize {
                let padded = format!("{}{}", "0".repeat(z), a);
                for s in [padded.clone(), format!("{padded};1"), format!("31;{padded}"), format!("{padded};{padded}")] {
                    if !go(&s, &mut acc) {
                        return acc;
                    }
                }
            }
            for b in 0..=110u32 {
                if !go(&format!("{a};{b}"), &mut acc) {
                    return acc;
                }
                for c in 0..=110u32 {
                    if !go(&format!("{a};{b};{c}"), &mut acc) {
                        return acc;
                    }
                    if tier == rt::Tier::Thorough {
                        for d in 0..=110u32 {
                            if !go(&format!("{a};{b};{c};{d}"), &mut acc) {
                                return acc;
                            }
                        }
                    }
                }
            }
        }
        acc
    });
    rep.add("exhaustive-lists", true, if tier == rt::Tier::Thorough { "all lists of 1..4 codes over 0..=110" } else { "all lists of 1..3 codes over 0..=110" }, accs);

    // out-of-range numbers congruent to a code modulo 2^8, 2^16, 2^32, 2^64: all must be rejected
    let mut acc = Acc::new();
    'w: for w in [8u32, 16, 32, 64] {
        for n in 0u128..=255 {
            let big = ((1u128 << w) + n).to_string();
            for s in [big.clone(), format!("1;{big}"), format!("{big};1"), format!("38;5;{big}"), format!("48;2;1;{big};3"), format!("{big};5;1")] {
                acc.eval();
                match rt::guarded(|| check(&s, &mut acc)) {
                    Ok(_) => acc.nontrivial_distinct(),
                    Err(m) => {
                        acc.fail("wrapped-numbers", json!(s), m);
                        break 'w;
                    }
                }
            }
        }
    }
    acc.samples.push(json!("4294967327"));
    rep.add("wrapped-numbers", true, "n + 2^w for all n in 0..=255, w in {8,16,32,64}, alone, next to a code and inside the extended-colour forms", vec![acc]);

    // extended-colour forms in every position of short lists
    let forms: Vec<String> = {
        let mut v = vec![];
        for t in [38, 48, 58] {
            for n in [0u8, 1, 2, 5, 7, 15, 16, 38, 255] {
                v.push(format!("{t};5;{n}"));
            }
            for (r, g, b) in [(0u8, 0u8, 0u8), (1, 2, 3), (255, 255, 255), (5, 5, 5), (2, 38, 5), (38, 5, 1)] {
                v.push(format!("{t};2;{r};{g};{b}"));
            }
        }
        v
    };
    let ctx: Vec<&str> = vec!["0", "1", "4", "7", "22", "24", "31", "39", "44", "49", "59", "90", "107", "38;5;9", "48;2;9;9;9", "58;5;1", "200"];
    let tails = ["", ";38", ";48;5", ";58;2", ";38;2;1", ";58;2;1;2"];
    let accs = rt::par(n, |w| {
        let mut acc = Acc::new();
        for (i, f) in forms.iter().enumerate() {
            if i % n != w {
                continue;
            }
            let mut cases = vec![f.clone()];
            for a in &ctx {
                cases.push(format!("{a};{f}"));
                cases.push(format!("{f};{a}"));
                for b in &ctx {
                    cases.push(format!("{a};{f};{b}"));
                    cases.push(format!("{a};{b};{f}"));
                    cases.push(format!("{f};{a};{b}"));
                }
            }
            for c in cases {
                for t in tails {
                    let s = format!("{c}{t}");
                    acc.eval();
                    match rt::guarded(|| check(&s, &mut acc)) {
                        Ok(nt) => {
                            if nt {
                                acc.nontrivial_distinct();
                                acc.sample(|| json!(s));
                            }
                        }
                        Err(m) => {
                            acc.fail("extended-colour-positions", json!(s), m);
                            return acc;
                        }
                    }
                }
            }
        }
        acc
    });
    rep.add("extended-colour-positions", true, "45 extended-colour forms x every position among 0..2 context codes (17 choices) x 6 truncated tails", accs);

    let body = |s: &String, acc: &mut Acc| match check(s, acc) {
        Ok(nt) => Verdict::ok(nt.then(|| digest_str(s))),
        Err(m) => Verdict { result: Err(m), nontrivial: None },
    };
    rep.add("random-lists", false, "well-formed lists of 1..40 codes with leading zeros and extended colours",
        prop_par("random-lists", args.seed, tier.pick(60_000, 10_000_000), arb_list, body, |s| json!(s)));
    rep.add("long-lists", false, "15..1027 fields (around powers of two) of well-formed codes ending in a deciding code (a code, 0, 256, a non-number, an empty field)",
        prop_par("long-lists", args.seed, tier.pick(8_000, 400_000), arb_long_list, body, |s| json!(s)));
    rep.add("single-edit-mutations", false, "one insert / delete / replace (separators, signs, digits, letters, controls, non-ASCII) at any position of a well-formed list, often at its end",
        prop_par("single-edit-mutations", args.seed, tier.pick(60_000, 5_000_000), arb_mutated, body, |s| json!(s)));
    rep.add("malformed", false, "lists with empty fields, signs, spaces, > 255, huge numbers, non-ASCII digits, trailing ';'",
        prop_par("malformed", args.seed, tier.pick(60_000, 10_000_000), arb_malformed, body, |s| json!(s)));
    rep.add("arbitrary-unicode", false, "arbitrary strings",
        prop_par("arbitrary-unicode", args.seed, tier.pick(30_000, 300_000), || prop_oneof![".{0,10}", "[0-9;+ -]{0,12}", "[0-9]{1,4}(;[0-9]{0,4}){0,6}"], body, |s| json!(s)));
}

fn replay(_sub: &str, case: &Value) -> Result<(), String> {
    let s = case.as_str().ok_or("bad case")?;
    check(s, &mut Acc::new()).map(|_| ())
}

fn main() {
    rt::quiet_panics();
    rt::main("C12", RULE, run, &replay)
}
