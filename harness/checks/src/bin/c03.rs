//! C03 — incremental processing equals one-shot processing for every chunking.
use checks::oracle::{check_cuts, check_partition, one_shot};
use proptest::prelude::*;
use serde_json::{json, Value};
use vcore::drive::{case_bytes, chunks_from_mask, enum_strings, stream_par, Verdict};
use vcore::gen::{self, StreamCfg};
use vcore::rt::{self, digest, esc, Acc, Args, Report};
use vcore::vt::{self, St};

const RULE: &str = "(Also: chunks written as literal format strings, write!(stream, <literal>), all pairs and triples of 35 literals.) Cases are (input, partition into consecutive chunks). Inputs: every byte string of the stated lengths over the sub-alphabet and over the character/introducer alphabet, with ALL 2^(n-1) partitions; short grammar streams (n <= 12, thorough 16) with all partitions; long grammar streams with generated partitions (sizes 1..k, all-single-byte, single chunk, cuts at interior positions of sequences). APIs: StripBytes, StripStream::write_all / write per chunk, WinconBytes (any cut); StripStr (cuts at character boundaries only). Oracle: chunked result == the same code on the whole input (strippers: bytes; extractor: per-character (style, char)). Non-trivial = at least one cut where the reference parser is not in the ground state (inside an escape sequence or inside a multi-byte character), distinct by (input, cuts).";

/// offsets i (0<i<len) where the reference machine is not in ground after input[..i]
fn nonground_mask(input: &[u8]) -> (u64, u64) {
    // returns (mask of non-ground cut positions, mask of character boundaries) for len <= 64
    let mut m = vt::Machine::new();
    let mut ng = 0u64;
    let mut cb = 0u64;
    for (i, &b) in input.iter().enumerate() {
        if i > 0 {
            if m.st != St::Ground {
                ng |= 1 << (i - 1);
            }
            if !(0x80..=0xbf).contains(&b) {
                cb |= 1 << (i - 1);
            }
        }
        m.feed(b);
    }
    (ng, cb)
}




/// all partitions of one input (len <= 17)
fn all_partitions(input: &[u8], acc: &mut Acc) -> Result<(), String> {
    let n = input.len();
    if n == 0 {
        return Ok(());
    }
    let one = one_shot(input);
    let (ng, cb) = nonground_mask(input);
    let total = 1u64 << (n - 1);
    for mask in 0..total {
        acc.evals += 1;
        let chunks = chunks_from_mask(input, mask);
        let str_ok = mask & !cb == 0;
        check_partition(input, &one, &chunks, str_ok)
            .map_err(|e| format!("{e} (cut mask {mask:#b})"))?;
        if mask & ng != 0 {
            acc.nontrivial_distinct();
        }
    }
    acc.evals -= 1; // the driver counts the input itself once
    Ok(())
}

fn cuts_from_fracs(len: usize, mode: u8, fracs: &[u16], input: &[u8]) -> Vec<usize> {
    if len < 2 {
        return vec![];
    }
    match mode {
        0 => vec![],
        1 => (1..len).collect(),
        2 => gen::interior_cuts(input),
        6 => {
            // for huge inputs: a few random cuts, the 16-bit boundaries, and some cuts inside sequences
            let mut v: Vec<usize> = fracs.iter().map(|f| 1 + ((*f as usize * (len - 1)) >> 16)).collect();
            v.extend([65_535usize, 65_536, 65_537, 131_072].into_iter().filter(|c| *c < len));
            let inner = gen::interior_cuts(input);
            let step = (inner.len() / 8).max(1);
            v.extend(inner.into_iter().step_by(step));
            v.sort();
            v.dedup();
            v
        }
        _ => {
            let mut v: Vec<usize> = fracs
                .iter()
                .map(|f| 1 + ((*f as usize * (len - 1)) >> 16))
                .collect();
            v.sort();
            v.dedup();
            v
        }
    }
}


fn enum_partitions(
    rep: &mut Report,
    name: &str,
    alpha: &[&[u8]],
    lens: &[usize],
    bound: &str,
) {
    let n = rt::workers();
    let mut all = vec![];
    for &len in lens {
        let accs = rt::par(n, |w| {
            let mut acc = Acc::new();
            enum_strings(alpha, len, w, n, |s| {
                acc.eval();
                match rt::guarded(|| all_partitions(s, &mut acc)) {
                    Ok(()) => {
                        acc.sample(|| json!({"input": esc(s), "partitions": 1u64 << s.len().saturating_sub(1)}));
                        true
                    }
                    Err(m) => {
                        // find the failing mask again for the replay file
                        let one = one_shot(s);
                        let (_, cb) = nonground_mask(s);
                        let mut mask_found = 0u64;
                        for mask in 0..(1u64 << (s.len() - 1)) {
                            let chunks = chunks_from_mask(s, mask);
                            if rt::guarded(|| check_partition(s, &one, &chunks, mask & !cb == 0)).is_err() {
                                mask_found = mask;
                                break;
                            }
                        }
                        let cuts: Vec<usize> = (0..s.len() - 1).filter(|i| mask_found >> i & 1 == 1).map(|i| i + 1).collect();
                        acc.fail(name, json!({"hex": rt::hex(s), "text": esc(s), "cuts": cuts}), m);
                        false
                    }
                }
            });
            acc
        });
        let failed = accs.iter().any(|a| a.failed());
        all.extend(accs);
        if failed {
            break;
        }
    }
    rep.add(name, true, bound, all);
}

/// chunks = literals written with `write!(stream, <literal>)`
fn literal_chunks(idx: &[usize], acc: &mut Acc) -> Result<(), String> {

    let whole: Vec<u8> = idx.iter().flat_map(|i| vcore::lits::LITS[*i].as_bytes().to_vec()).collect();
    let want = checks::real::strip_bytes_vec(&whole);
    let mut a = anstream::StripStream::new(Vec::new());
    let mut b = anstream::AutoStream::never(Vec::new());
    for i in idx {
        vcore::lits::write_lit(&mut a, *i, false).map_err(|e| format!("write! failed: {e}"))?;
        vcore::lits::write_lit(&mut b, *i, false).map_err(|e| format!("write! failed: {e}"))?;
    }
    let show = || idx.iter().map(|i| esc(vcore::lits::LITS[*i].as_bytes())).collect::<Vec<_>>().join(" | ");
    let (a, b) = (a.into_inner(), b.into_inner());
    if a != want {
        return Err(format!("StripStream fed the literal chunks [{}] with write! holds {} but one-shot gives {}", show(), esc(&a), esc(&want)));
    }
    if b != want {
        return Err(format!("AutoStream::never fed the literal chunks [{}] with write! holds {} but one-shot gives {}", show(), esc(&b), esc(&want)));
    }
    // non-trivial: a chunk boundary inside a sequence or a character
    let mut m = vt::Machine::new();
    let mut inside = false;
    for i in &idx[..idx.len() - 1] {
        m.feed_all(vcore::lits::LITS[*i].as_bytes());
        inside |= m.st != St::Ground;
    }
    if inside {
        acc.nontrivial_distinct();
    }
    Ok(())
}

fn run(args: &Args, rep: &mut Report) {
    let tier = args.tier;
    let sub = gen::as_symbols(gen::ALPHA_SUB);
    let sub: Vec<&[u8]> = sub.iter().map(|v| v.as_slice()).collect();
    let strs: Vec<&[u8]> = gen::ALPHA_STR.to_vec();
    let lens: &[usize] = tier.pick(&[1, 2, 3, 4], &[1, 2, 3, 4, 5]);
    enum_partitions(
        rep,
        "enum-bytes-all-partitions",
        &sub,
        lens,
        &format!("all byte strings of lengths {:?} over {} symbols x all partitions", lens, sub.len()),
    );
    let lens: &[usize] = tier.pick(&[1, 2, 3], &[1, 2, 3, 4]);
    enum_partitions(
        rep,
        "enum-symbols-all-partitions",
        &strs,
        lens,
        &format!("all strings of {:?} symbols over {} characters/introducers x all byte partitions (StripStr on the character-boundary ones)", lens, strs.len()),
    );

    // short grammar streams x all partitions
    let maxlen = tier.pick(12usize, 16);
    rep.add(
        "short-streams-all-partitions",
        false,
        &format!("G-STREAM inputs truncated to <= {maxlen} bytes x all 2^(n-1) partitions"),
        stream_par(
            "short-streams-all-partitions",
            args.seed,
            tier.pick(400, 3000),
            StreamCfg { max_items: 5, ..StreamCfg::ALL },
            || Just(()),
            move |bytes, _, acc| {
                let b = &bytes[..bytes.len().min(maxlen)];
                let before = acc.nontrivial_counted;
                let r = all_partitions(b, acc);
                // partitions of one input are distinct; inputs may repeat, so
                // count them through the digest set instead
                let found = acc.nontrivial_counted - before;
                acc.nontrivial_counted = before;
                if found > 0 {
                    for k in 0..found {
                        acc.nontrivial(digest(b) ^ rt::mix(k));
                    }
                }
                Verdict { result: r, nontrivial: None }
            },
            |_| Value::Null,
        ),
    );

    // long streams x generated partitions
    let aux = || (0u8..=5, proptest::collection::vec(any::<u16>(), 1..40));
    let body = |bytes: &[u8], (mode, fracs): &(u8, Vec<u16>), acc: &mut Acc| {
        let cuts = cuts_from_fracs(bytes.len(), *mode, fracs, bytes);
        acc.class(match mode {
            0 => "single-chunk",
            1 => "all-single-byte",
            2 => "cut-at-every-interior-position",
            _ => "random-cuts",
        });
        match check_cuts(bytes, &cuts) {
            Ok(nt) => Verdict::ok(nt.then(|| digest(bytes) ^ rt::mix(cuts.len() as u64 ^ cuts.iter().sum::<usize>() as u64))),
            Err(m) => Verdict { result: Err(m), nontrivial: None },
        }
    };
    let auxj = |(mode, fracs): &(u8, Vec<u16>)| json!({"mode": mode, "fracs": fracs});
    rep.add(
        "streams-generated-partitions",
        false,
        "G-STREAM (all classes, 0..40 items) x generated partitions",
        stream_par("streams-generated-partitions", args.seed, tier.pick(30_000, 1_000_000), StreamCfg::ALL, aux, body, auxj),
    );
    rep.add(
        "utf8-streams-generated-partitions",
        false,
        "G-STREAM restricted to valid UTF-8 (StripStr takes part whenever all cuts are character boundaries)",
        stream_par("utf8-streams-generated-partitions", args.seed, tier.pick(20_000, 500_000), StreamCfg::UTF8, aux, body, auxj),
    );
    rep.add(
        "long-streams-generated-partitions",
        false,
        "G-STREAM up to 300 items (several KiB) x generated partitions",
        stream_par(
            "long-streams-generated-partitions",
            args.seed,
            tier.pick(500, 20_000),
            StreamCfg { max_items: 300, ..StreamCfg::ALL },
            aux,
            body,
            auxj,
        ),
    );
    rep.add(
        "huge-streams-generated-partitions",
        false,
        "G-STREAM (0..8 items) with one printable run of 64..200 KiB x generated partitions (single chunk; 1..8 random cuts; random cuts + the 16-bit boundaries + cuts inside sequences)",
        vcore::drive::huge_par(
            "huge-streams-generated-partitions",
            args.seed,
            tier.pick(100, 5_000),
            StreamCfg::ALL,
            || (prop_oneof![1 => Just(0u8), 1 => Just(5u8), 3 => Just(6u8)], proptest::collection::vec(any::<u16>(), 1..8)),
            body,
            auxj,
        ),
    );
    // chunks handed over as formatted writes whose format string is a bare literal
    let nl = vcore::lits::LITS.len();
    let accs = rt::par(rt::workers(), |w| {
        let mut acc = Acc::new();
        let n = rt::workers();
        for i in (0..nl).filter(|i| i % n == w) {
            for j in 0..nl {
                for k in 0..=nl {
                    // k == nl: only two chunks
                    let idx: Vec<usize> = if k == nl { vec![i, j] } else { vec![i, j, k] };
                    acc.eval();
                    if let Err(m) = rt::guarded(|| literal_chunks(&idx, &mut acc)) {
                        acc.fail("literal-chunks", json!({"literals": idx}), m);
                        return acc;
                    }
                }
            }
        }
        acc.sample(|| json!({"chunks": ["\\x1b[3", "1mred"], "via": "write!(stream, <literal>)"}));
        acc
    });
    rep.add(
        "literal-chunks",
        true,
        &format!("all pairs and triples of the {nl} escape-rich literals of vcore::lits, each chunk written with write!(stream, <literal>) to StripStream and AutoStream::never, against one-shot stripping of the concatenation"),
        accs,
    );
    if args.tier == vcore::rt::Tier::Thorough {
        checks::fuzzrun::campaign(rep, args, "chunk", 300000, checks::oracle::fuzz_chunk);
    }
}

fn replay(_sub: &str, case: &Value) -> Result<(), String> {
    if _sub.starts_with("libfuzzer-") {
        return checks::oracle::fuzz_chunk(&vcore::drive::case_bytes(case));
    }
    if _sub == "literal-chunks" {
        let idx: Vec<usize> = case["literals"].as_array().ok_or("bad case")?.iter().filter_map(|v| v.as_u64()).map(|v| v as usize).collect();
        return literal_chunks(&idx, &mut Acc::new());
    }
    let bytes = case_bytes(case);
    if let Some(cuts) = case.get("cuts").and_then(|c| c.as_array()) {
        let cuts: Vec<usize> = cuts.iter().filter_map(|c| c.as_u64()).map(|c| c as usize).collect();
        return check_cuts(&bytes, &cuts).map(|_| ());
    }
    if let Some(aux) = case.get("aux").filter(|a| a.is_object()) {
        let mode = aux["mode"].as_u64().unwrap_or(3) as u8;
        let fracs: Vec<u16> = aux["fracs"]
            .as_array()
            .map(|a| a.iter().filter_map(|v| v.as_u64()).map(|v| v as u16).collect())
            .unwrap_or_default();
        let cuts = cuts_from_fracs(bytes.len(), mode, &fracs, &bytes);
        return check_cuts(&bytes, &cuts).map(|_| ());
    }
    // no partition recorded: try all (short inputs) 
    let b = &bytes[..bytes.len().min(16)];
    all_partitions(b, &mut Acc::new())
}

fn main() {
    rt::quiet_panics();
    rt::main("C03", RULE, run, &replay)
}
