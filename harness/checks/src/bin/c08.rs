//! C08 — AutoStream modes: never strips, always-ansi forwards unchanged.
use anstream::stream::{AsLockedWrite, RawStream};
use anstream::{AutoStream, ColorChoice, StripStream};
use checks::real::strip_bytes_vec;
use proptest::prelude::*;
use serde::{Deserialize, Serialize};
use serde_json::{json, Value};
use std::cell::RefCell;
use std::io::{IoSlice, Read, Seek, Write};
use std::rc::Rc;
use vcore::drive::{prop_par, Verdict};
use vcore::gen::{self, StreamCfg};
use vcore::rt::{self, digest_str, esc, Acc, Args, Report};
use vcore::vt::{self, St};

const RULE: &str = "A case is (colour choice, sink kind, constructor, operation sequence). Operation sequences of 0..30 ops from {write, write_all, write_vectored, write! with 1..3 fragments, write!/writeln! whose format string is a bare literal (35 escape-rich literals), write! with char-typed arguments, write! of a Display that uses Formatter::write_char / write_str / nested write! / write_fmt, flush}; data also with one printable run of 64..200 KiB; write_vectored also with no buffers at all or only empty ones over data from G-STREAM cut at generated offsets (also inside escape sequences and multi-byte characters); choices {Auto, AlwaysAnsi, Always, Never} (Auto under two pinned environments, NO_COLOR=1 and CLICOLOR_FORCE=1, and under each process-wide ColorChoice - an explicit choice must win over the global one); sinks {Vec<u8>, Box<dyn Write>, &mut Vec<u8>, File, anstream::Buffer, Box<Vec<u8>>, Box<dyn Write + Send>, Box<File>}. Oracle: Never => sink == what a StripStream<Vec<u8>> fed the same ops holds (same return values) == strip(bytes reported consumed); AlwaysAnsi/Always => sink == bytes reported consumed; current_choice reports the mode in force; into_inner returns exactly what was delivered; to_adapted_string strips or forwards according to the stream's choice. lock(): on the standard streams (child process, pipes) a write, lock(), write sequence delivers what the unlocked stream delivers. Non-trivial = at least two different write-family calls and an op boundary inside an escape sequence (distinct by case).";

#[derive(Clone, Debug, Serialize, Deserialize, PartialEq)]
enum Op {
    Write(Vec<u8>),
    WriteAll(Vec<u8>),
    Vectored(Vec<Vec<u8>>),
    Fmt(Vec<String>),
    /// write!/writeln! with literal #i of vcore::lits as the whole format string
    Lit(usize, bool),
    /// the text as char-typed arguments: write!(w, "{}", ch) per character (every third one with a
    /// fill character taken from the text: `{:c>1}`-style padding that adds nothing)
    FmtChars(String),
    /// one Display argument that emits the text through a mix of Formatter::write_str, write_char,
    /// a nested write!(f, ..) and pad
    FmtMixed(String),
    Flush,
}

#[derive(Clone, Debug, Serialize, Deserialize)]
struct Case {
    /// 0 Auto, 1 AlwaysAnsi, 2 Always, 3 Never
    choice: u8,
    /// 0 Vec, 1 Box<dyn Write>, 2 &mut Vec, 3 File, 4 anstream::Buffer, 5 Box<Vec>, 6 Box<dyn Write + Send>, 7 Box<File>
    sink: u8,
    /// construct through AutoStream::new instead of the named constructor
    via_new: bool,
    ops: Vec<Op>,
    /// environment phase: true = NO_COLOR=1 (Auto resolves to Never), false = CLICOLOR_FORCE=1
    no_color: bool,
    /// the process-wide ColorChoice in force while the case runs (0 Auto, 1 AlwaysAnsi, 2 Always,
    /// 3 Never): consulted by the Auto choice only, an explicit choice wins over it
    #[serde(default)]
    global: u8,
}

fn choice_of(c: u8) -> ColorChoice {
    match c {
        0 => ColorChoice::Auto,
        1 => ColorChoice::AlwaysAnsi,
        2 => ColorChoice::Always,
        _ => ColorChoice::Never,
    }
}

#[derive(Clone)]
struct Shared(Rc<RefCell<Vec<u8>>>);
impl Write for Shared {
    fn write(&mut self, buf: &[u8]) -> std::io::Result<usize> {
        self.0.borrow_mut().extend_from_slice(buf);
        Ok(buf.len())
    }
    fn flush(&mut self) -> std::io::Result<()> {
        Ok(())
    }
}

struct SendShared(std::sync::Arc<std::sync::Mutex<Vec<u8>>>);
impl Write for SendShared {
    fn write(&mut self, buf: &[u8]) -> std::io::Result<usize> {
        self.0.lock().unwrap().extend_from_slice(buf);
        Ok(buf.len())
    }
    fn flush(&mut self) -> std::io::Result<()> {
        Ok(())
    }
}

/// a Display that reaches the underlying fmt::Write through every Formatter entry point
struct Mixed<'a>(&'a str);
impl std::fmt::Display for Mixed<'_> {
    fn fmt(&self, f: &mut std::fmt::Formatter<'_>) -> std::fmt::Result {
        use std::fmt::Write as _;
        let mut rest = self.0;
        let mut k = 0usize;
        while let Some(ch) = rest.chars().next() {
            // pieces of 1..3 characters
            let n = 1 + k % 3;
            let end = rest.char_indices().nth(n).map(|(i, _)| i).unwrap_or(rest.len());
            let piece = &rest[..end];
            match k % 4 {
                0 => f.write_char(ch).and_then(|_| f.write_str(&piece[ch.len_utf8()..]))?,
                1 => f.write_str(piece)?,
                2 => write!(f, "{}", piece)?,
                _ => f.write_fmt(format_args!("{piece}"))?,
            }
            rest = &rest[end..];
            k += 1;
        }
        Ok(())
    }
}

/// apply one op; returns the bytes the writer reported as consumed
fn apply(w: &mut dyn Write, op: &Op) -> Result<(Vec<u8>, Option<usize>), String> {
    match op {
        Op::Write(b) => {
            let n = w.write(b).map_err(|e| format!("write failed: {e}"))?;
            if n > b.len() {
                return Err(format!("write returned {n} for {} bytes", b.len()));
            }
            Ok((b[..n].to_vec(), Some(n)))
        }
        Op::WriteAll(b) => {
            w.write_all(b).map_err(|e| format!("write_all failed: {e}"))?;
            Ok((b.clone(), None))
        }
        Op::Vectored(bufs) => {
            let slices: Vec<IoSlice<'_>> = bufs.iter().map(|b| IoSlice::new(b)).collect();
            let n = w.write_vectored(&slices).map_err(|e| format!("write_vectored failed: {e}"))?;
            let all: Vec<u8> = bufs.concat();
            if n > all.len() {
                return Err(format!("write_vectored returned {n} for {} bytes", all.len()));
            }
            Ok((all[..n].to_vec(), Some(n)))
        }
        Op::Fmt(p) => {
            let r = match p.len() {
                0 => write!(w, ""),
                1 => write!(w, "{}", p[0]),
                2 => write!(w, "{}{}", p[0], p[1]),
                _ => write!(w, "{}{}{}", p[0], p[1], p[2..].concat()),
            };
            r.map_err(|e| format!("write! failed: {e}"))?;
            Ok((p.concat().into_bytes(), None))
        }
        Op::FmtChars(t) => {
            for (k, ch) in t.chars().enumerate() {
                let r = match k % 3 {
                    0 => write!(w, "{}", ch),
                    1 => write!(w, "{ch}"),
                    // width 1 never pads a one-character argument; the fill character itself is not emitted
                    _ => write!(w, "{:é<1}", ch),
                };
                r.map_err(|e| format!("write! of a char failed: {e}"))?;
            }
            Ok((t.clone().into_bytes(), None))
        }
        Op::FmtMixed(t) => {
            write!(w, "{}", Mixed(t)).map_err(|e| format!("write! of a mixed Display failed: {e}"))?;
            Ok((t.clone().into_bytes(), None))
        }
        Op::Lit(i, nl) => {
            vcore::lits::write_lit(w, *i, *nl).map_err(|e| format!("write! of a literal failed: {e}"))?;
            Ok((vcore::lits::lit_bytes(*i, *nl), None))
        }
        Op::Flush => {
            w.flush().map_err(|e| format!("flush failed: {e}"))?;
            Ok((vec![], None))
        }
    }
}

struct Outcome {
    consumed: Vec<u8>,
    delivered: Vec<u8>,
    model_delivered: Vec<u8>,
}

fn drive<S: RawStream + AsLockedWrite>(
    mut stream: AutoStream<S>,
    strips: bool,
    ops: &[Op],
    peek: Option<&Rc<RefCell<Vec<u8>>>>,
    finish: impl FnOnce(S) -> Result<Vec<u8>, String>,
) -> Result<Outcome, String> {
    // the mode in force on this platform: stripping, or forwarding - which `current_choice` may
    // spell Always or AlwaysAnsi (both forward every byte here); never Auto
    let mode = |c: ColorChoice| match c {
        ColorChoice::Never => 0u8,
        ColorChoice::Auto => 2,
        _ => 1,
    };
    let want_choice = if strips { ColorChoice::Never } else { ColorChoice::AlwaysAnsi };
    if mode(stream.current_choice()) != mode(want_choice) {
        return Err(format!("current_choice() is {:?}, the mode in force is {:?}", stream.current_choice(), want_choice));
    }
    if stream.is_terminal() {
        return Err("is_terminal() is true for a non-terminal sink".into());
    }
    let mut model = StripStream::new(Vec::new());
    let mut consumed = Vec::new();
    for (i, op) in ops.iter().enumerate() {
        let (c, ret) = apply(&mut stream, op).map_err(|e| format!("op #{i} {:?}: {e}", op))?;
        if strips {
            // the same op on a plain StripStream
            let (mc, mret) = apply(&mut model, op).map_err(|e| format!("model op #{i}: {e}"))?;
            if mret != ret || mc != c {
                return Err(format!("op #{i} {:?} returned {:?} but a StripStream returns {:?}", op, ret, mret));
            }
        }
        consumed.extend_from_slice(&c);
        if let Some(p) = peek {
            let got = p.borrow().clone();
            let want = if strips { strip_bytes_vec(&consumed) } else { consumed.clone() };
            if got != want {
                return Err(format!("after op #{i} {:?} the sink holds {} but should hold {}", op, esc(&got), esc(&want)));
            }
        }
        if mode(stream.current_choice()) != mode(want_choice) {
            return Err(format!("current_choice() changed after op #{i}"));
        }
    }
    let delivered = finish(stream.into_inner())?;
    Ok(Outcome { consumed, delivered, model_delivered: model.into_inner() })
}

fn build<S: RawStream>(raw: S, case: &Case) -> AutoStream<S> {
    let choice = choice_of(case.choice);
    if case.via_new {
        AutoStream::new(raw, choice)
    } else {
        match choice {
            ColorChoice::Auto => AutoStream::auto(raw),
            ColorChoice::AlwaysAnsi => AutoStream::always_ansi(raw),
            ColorChoice::Always => AutoStream::always(raw),
            ColorChoice::Never => AutoStream::never(raw),
        }
    }
}

fn env_matches(no_color: bool) -> bool {
    let nc = std::env::var_os("NO_COLOR").map(|v| !v.is_empty()).unwrap_or(false);
    let cf = std::env::var_os("CLICOLOR_FORCE").map(|v| !v.is_empty()).unwrap_or(false);
    if no_color { nc } else { !nc && cf }
}

fn set_env(no_color: bool) {
    for k in ["NO_COLOR", "CLICOLOR_FORCE", "CLICOLOR", "CI"] {
        std::env::remove_var(k);
    }
    if no_color {
        std::env::set_var("NO_COLOR", "1");
    } else {
        std::env::set_var("CLICOLOR_FORCE", "1");
    }
}

fn check_case(case: &Case) -> Result<bool, String> {
    if !env_matches(case.no_color) {
        // replay mode: pin the environment the case was generated for
        set_env(case.no_color);
    }
    if ColorChoice::global() != choice_of(case.global) {
        // replay mode
        choice_of(case.global).write_global();
    }
    // what `Auto` resolves to: the global choice unless that is Auto too, then the environment
    // (with a global Auto the decision comes from the environment - C09's subject, not judged here:
    // the library is asked what it decides for a non-terminal, and the stream must then behave so)
    let auto_strips = match choice_of(case.global) {
        ColorChoice::Auto => AutoStream::choice(&Vec::<u8>::new()) == ColorChoice::Never,
        ColorChoice::Never => true,
        _ => false,
    };
    let strips = match choice_of(case.choice) {
        ColorChoice::Never => true,
        ColorChoice::Auto => auto_strips,
        _ => false,
    };
    let out = match case.sink {
        0 => {
            let raw: Vec<u8> = Vec::new();
            if choice_of(case.choice) == ColorChoice::Auto {
                let want = match choice_of(case.global) {
                    ColorChoice::Auto => if strips { ColorChoice::Never } else { ColorChoice::Always },
                    g => g,
                };
                let got = AutoStream::choice(&raw);
                // a decision taken from the environment is "enabled" or "disabled": whether enabled is
                // spelled Always or AlwaysAnsi is not part of the property
                let same = if choice_of(case.global) == ColorChoice::Auto { got != ColorChoice::Auto } else { (got == ColorChoice::Never) == (want == ColorChoice::Never) && got != ColorChoice::Auto };
                if !same {
                    return Err(format!("AutoStream::choice is {:?} with NO_COLOR={} and global {:?}, expected {:?}", got, case.no_color, choice_of(case.global), want));
                }
            }
            drive(build(raw, case), strips, &case.ops, None, Ok)?
        }
        1 => {
            let shared = Rc::new(RefCell::new(Vec::new()));
            let raw: Box<dyn Write> = Box::new(Shared(shared.clone()));
            let s2 = shared.clone();
            drive(build(raw, case), strips, &case.ops, Some(&shared), move |_| Ok(s2.borrow().clone()))?
        }
        2 => {
            let mut v: Vec<u8> = Vec::new();
            let o = drive(build(&mut v, case), strips, &case.ops, None, |_| Ok(vec![]))?;
            Outcome { delivered: v, ..o }
        }
        4 => {
            #[allow(deprecated)]
            let raw = anstream::Buffer::new();
            #[allow(deprecated)]
            let fin = |b: anstream::Buffer| Ok(b.as_bytes().to_vec());
            drive(build(raw, case), strips, &case.ops, None, fin)?
        }
        5 => {
            let raw: Box<Vec<u8>> = Box::new(Vec::new());
            drive(build(raw, case), strips, &case.ops, None, |b| Ok(*b))?
        }
        6 => {
            let handle = std::sync::Arc::new(std::sync::Mutex::new(Vec::new()));
            let raw: Box<dyn Write + Send> = Box::new(SendShared(handle.clone()));
            drive(build(raw, case), strips, &case.ops, None, move |_| Ok(handle.lock().unwrap().clone()))?
        }
        3 => {
            let path = rt::tmp_dir().join(format!("c08-{}-{:?}.bin", std::process::id(), std::thread::current().id()));
            let f = std::fs::OpenOptions::new().create(true).truncate(true).read(true).write(true).open(&path).map_err(|e| format!("tmp file: {e}"))?;
            let r = drive(build(f, case), strips, &case.ops, None, |mut f| {
                let mut v = Vec::new();
                f.rewind().and_then(|_| f.read_to_end(&mut v)).map_err(|e| format!("read back: {e}"))?;
                Ok(v)
            });
            let _ = std::fs::remove_file(&path);
            r?
        }
        _ => {
            // a boxed file
            let path = rt::tmp_dir().join(format!("c08b-{}-{:?}.bin", std::process::id(), std::thread::current().id()));
            let f = std::fs::OpenOptions::new().create(true).truncate(true).read(true).write(true).open(&path).map_err(|e| format!("tmp file: {e}"))?;
            let r = drive(build(Box::new(f), case), strips, &case.ops, None, |mut f: Box<std::fs::File>| {
                let mut v = Vec::new();
                f.rewind().and_then(|_| f.read_to_end(&mut v)).map_err(|e| format!("read back: {e}"))?;
                Ok(v)
            });
            let _ = std::fs::remove_file(&path);
            r?
        }
    };
    let want = if strips { strip_bytes_vec(&out.consumed) } else { out.consumed.clone() };
    if out.delivered != want {
        return Err(format!(
            "choice {:?} (strips: {strips}) sink {}: inner writer holds {} but should hold {}",
            choice_of(case.choice),
            case.sink,
            esc(&out.delivered),
            esc(&want)
        ));
    }
    if strips && out.model_delivered != out.delivered {
        return Err(format!("a StripStream<Vec<u8>> fed the same ops holds {} but the stream delivered {}", esc(&out.model_delivered), esc(&out.delivered)));
    }
    // to_adapted_string on the concatenated data when it is UTF-8
    if let Ok(text) = std::str::from_utf8(&out.consumed) {
        let sink: Vec<u8> = Vec::new();
        let got = anstream::_macros::to_adapted_string(&text, &sink);
        let want = if auto_strips { String::from_utf8_lossy(&strip_bytes_vec(text.as_bytes())).into_owned() } else { text.to_owned() };
        if got != want {
            return Err(format!("to_adapted_string({}) = {} expected {}", esc(text.as_bytes()), esc(got.as_bytes()), esc(want.as_bytes())));
        }
    }
    // non-trivial?
    let mut kinds = std::collections::BTreeSet::new();
    let mut m = vt::Machine::new();
    let mut split_inside = false;
    for op in &case.ops {
        let (k, data): (u8, Vec<u8>) = match op {
            Op::Write(b) => (0, b.clone()),
            Op::WriteAll(b) => (1, b.clone()),
            Op::Vectored(b) => (2, b.concat()),
            Op::Fmt(p) => (3, p.concat().into_bytes()),
            Op::Lit(i, nl) => (4, vcore::lits::lit_bytes(*i, *nl)),
            Op::FmtChars(t) => (5, t.clone().into_bytes()),
            Op::FmtMixed(t) => (6, t.clone().into_bytes()),
            Op::Flush => continue,
        };
        kinds.insert(k);
        if m.st != St::Ground && m.st != St::Utf8 && !data.is_empty() {
            split_inside = true;
        }
        m.feed_all(&data);
    }
    Ok(kinds.len() >= 2 && split_inside)
}

fn arb_case(no_color: bool, global: u8, huge: bool) -> impl Strategy<Value = Case> {
    (
        0u8..4,
        prop_oneof![3 => Just(0u8), 3 => Just(1u8), 2 => Just(2u8), 1 => Just(3u8), 1 => Just(4u8), 1 => Just(5u8), 1 => Just(6u8), 1 => Just(7u8)],
        any::<bool>(),
        prop_oneof![gen::stream(StreamCfg { max_items: if huge { 6 } else { 14 }, ..StreamCfg::ALL }), gen::stream(StreamCfg { max_items: if huge { 6 } else { 14 }, ..StreamCfg::UTF8 })],
        proptest::collection::vec((any::<u16>(), 0u8..15, any::<u16>()), 0..if huge { 4 } else { 30 }),
        (gen::huge_text(false), any::<u16>()),
    )
        .prop_map(move |(choice, sink, via_new, mut items, cuts, (big, frac))| {
            if huge {
                gen::insert_huge(&mut items, big, frac);
            }
            let bytes = gen::render(&items);
            let len = bytes.len();
            let mut points: Vec<(usize, u8, u16)> = cuts
                .iter()
                .map(|(f, k, x)| (if len == 0 { 0 } else { (*f as usize * (len + 1)) >> 16 }, *k, *x))
                .collect();
            points.sort();
            let mut ops = Vec::new();
            let mut start = 0usize;
            for (p, kind, extra) in points.into_iter().chain(std::iter::once((len, 1u8, 0u16))) {
                let piece = bytes[start..p.max(start)].to_vec();
                start = p.max(start);
                let op = match kind {
                    0 | 1 => Op::Write(piece),
                    2 | 3 => Op::WriteAll(piece),
                    4 | 5 => {
                        let k = if piece.is_empty() { 0 } else { extra as usize % (piece.len() + 1) };
                        // shapes: no buffers at all, only empty ones, one buffer, data after / between empty ones
                        match extra / 11 % 6 {
                            0 => Op::Vectored(vec![]),
                            1 => Op::Vectored(vec![vec![], vec![]]),
                            2 => Op::Vectored(vec![piece]),
                            3 => Op::Vectored(vec![piece[..k].to_vec(), piece[k..].to_vec(), vec![]]),
                            _ => Op::Vectored(vec![vec![], piece[..k].to_vec(), vec![], piece[k..].to_vec()]),
                        }
                    }
                    6 | 7 | 8 => match String::from_utf8(piece.clone()) {
                        Ok(s) => {
                            let bounds: Vec<usize> = (0..=s.len()).filter(|i| s.is_char_boundary(*i)).collect();
                            let i = bounds[extra as usize % bounds.len()];
                            let j = bounds[(extra as usize / 7) % bounds.len()];
                            let (i, j) = (i.min(j), i.max(j));
                            Op::Fmt(vec![s[..i].to_owned(), s[i..j].to_owned(), s[j..].to_owned()])
                        }
                        Err(_) => Op::WriteAll(piece),
                    },
                    9 => Op::Flush,
                    12 | 13 | 14 => match String::from_utf8(piece.clone()) {
                        // char-typed arguments character by character: only for short pieces
                        Ok(s) if kind == 12 && s.len() <= 4096 => Op::FmtChars(s),
                        Ok(s) => Op::FmtMixed(s),
                        Err(_) => Op::Write(piece),
                    },
                    _ => {
                        // the piece first, then a literal formatted write (often the tail of a sequence the piece left open)
                        ops.push(Op::WriteAll(piece));
                        Op::Lit(extra as usize % vcore::lits::LITS.len(), extra & 0x4000 != 0)
                    }
                };
                // `write` may legitimately consume less than offered only on a short
                // inner write; our sinks accept everything, so the unconsumed tail of a
                // Write op is simply not part of the stream's input
                ops.push(op);
            }
            Case { choice, sink, via_new, ops, no_color, global }
        })
}

fn run(args: &Args, rep: &mut Report) {
    let tier = args.tier;
    colorchoice::ColorChoice::Auto.write_global();
    for (no_color, global) in [(true, 0u8), (false, 0), (true, 2), (false, 3), (true, 1), (false, 1)] {
        set_env(no_color);
        choice_of(global).write_global();
        let name = format!("op-sequences-{}-global-{:?}", if no_color { "NO_COLOR" } else { "CLICOLOR_FORCE" }, choice_of(global));
        let name = name.as_str();
        rep.add(
            name,
            false,
            "0..30 ops over G-STREAM data x 4 choices x 8 sinks x 2 constructors, under the stated environment and process-wide colour choice",
            prop_par(
                name,
                args.seed,
                if global == 0 { tier.pick(14_000, 1_400_000) } else { tier.pick(3_000, 300_000) },
                move || arb_case(no_color, global, false),
                |case, acc: &mut Acc| {
                    acc.class(&format!("choice-{:?}", choice_of(case.choice)));
                    acc.class(["sink-Vec", "sink-BoxDyn", "sink-&mut Vec", "sink-File", "sink-Buffer", "sink-Box<Vec>", "sink-BoxDynSend", "sink-Box<File>"][case.sink as usize & 7]);
                    match check_case(case) {
                        Ok(nt) => Verdict::ok(nt.then(|| digest_str(&serde_json::to_string(case).unwrap()))),
                        Err(m) => Verdict { result: Err(m), nontrivial: None },
                    }
                },
                |case| serde_json::to_value(case).unwrap(),
            ),
        );
    }
    colorchoice::ColorChoice::Auto.write_global();
    set_env(true);
    rep.add(
        "op-sequences-huge",
        false,
        "0..4 ops over G-STREAM data with one printable run of 64..200 KiB x 4 choices x 4 sinks (NO_COLOR=1)",
        prop_par(
            "op-sequences-huge",
            args.seed,
            tier.pick(120, 6_000),
            || arb_case(true, 0, true),
            |case, _: &mut Acc| match check_case(case) {
                Ok(_) => Verdict::ok(Some(digest_str(&serde_json::to_string(case).unwrap()))),
                Err(m) => Verdict { result: Err(m), nontrivial: None },
            },
            |case| serde_json::to_value(case).unwrap(),
        ),
    );
    for k in ["NO_COLOR", "CLICOLOR_FORCE"] {
        std::env::remove_var(k);
    }
    // lock() on the standard streams keeps the stream's mode and state
    let cases = lock_cases(args.seed, tier.pick(400, 20_000));
    let mut acc = Acc::new();
    let mut notes = vec![];
    check_lock(&cases, &mut acc, &mut notes);
    for n in &notes {
        rep.note(n);
    }
    acc.samples.push(json!({"first": "A\\x1b[", "then": "lock()", "second": "1;31mB\\x1b[0mC", "expected": "ABC"}));
    rep.add(
        "lock-carries-state",
        false,
        "G-STREAM inputs cut at a generated position (half of them inside a sequence / character): write_all(first); lock(); write_all(second) through AutoStream(Never), StripStream and AutoStream(AlwaysAnsi) over the child process's own stdout and stderr, read back through pipes",
        vec![acc],
    );
    let _ = json!(null);
}

// ------------------------------------------------------------- lock() on the standard streams

const LOCK_FLAVOURS: [&str; 6] = ["never-stdout", "never-stderr", "strip-stdout", "strip-stderr", "always-stdout", "always-stderr"];

fn lock_marker(k: usize) -> Vec<u8> {
    format!("\n@@END {k}@@\n").into_bytes()
}

/// Child mode: for every case (two pieces of one input) write the first piece through the stream
/// over the process's own stdout / stderr, `lock()` the stream, write the second piece through
/// the locked stream; a marker written to the raw std stream separates the cases.
fn lock_child(flavour: &str, case_file: &str) {
    let cases: Vec<(String, String)> = serde_json::from_slice(&std::fs::read(case_file).expect("case file")).expect("cases");
    for (k, (a, b)) in cases.iter().enumerate() {
        let (a, b) = (rt::unhex(a), rt::unhex(b));
        macro_rules! go {
            ($stream:expr, $raw:expr) => {{
                let mut s = $stream;
                let _ = s.write_all(&a);
                let mut l = s.lock();
                let _ = l.write_all(&b);
                let _ = l.flush();
                drop(l);
                let mut raw = $raw;
                let _ = raw.write_all(&lock_marker(k));
                let _ = raw.flush();
            }};
        }
        match flavour {
            "never-stdout" => go!(AutoStream::new(std::io::stdout(), ColorChoice::Never), std::io::stdout()),
            "never-stderr" => go!(AutoStream::new(std::io::stderr(), ColorChoice::Never), std::io::stderr()),
            "strip-stdout" => go!(StripStream::new(std::io::stdout()), std::io::stdout()),
            "strip-stderr" => go!(StripStream::new(std::io::stderr()), std::io::stderr()),
            "always-stdout" => go!(AutoStream::new(std::io::stdout(), ColorChoice::AlwaysAnsi), std::io::stdout()),
            _ => go!(AutoStream::new(std::io::stderr(), ColorChoice::AlwaysAnsi), std::io::stderr()),
        }
    }
}

fn check_lock(cases: &[(Vec<u8>, Vec<u8>)], acc: &mut Acc, notes: &mut Vec<String>) {
    let exe = match std::env::current_exe() {
        Ok(e) => e,
        Err(_) => return,
    };
    let file = rt::tmp_dir().join(format!("c08-lock-{}.json", std::process::id()));
    let enc: Vec<(String, String)> = cases.iter().map(|(a, b)| (rt::hex(a), rt::hex(b))).collect();
    if std::fs::write(&file, serde_json::to_vec(&enc).unwrap()).is_err() {
        return;
    }
    for flavour in LOCK_FLAVOURS {
        let out = std::process::Command::new(&exe).arg("--lock-child").arg(flavour).arg(&file).stdin(std::process::Stdio::null()).output();
        let out = match out {
            Ok(o) if o.status.success() => o,
            _ => {
                notes.push(format!("lock-carries-state: the child for {flavour} could not be run"));
                continue;
            }
        };
        let bytes = if flavour.ends_with("stdout") { out.stdout } else { out.stderr };
        let mut rest: &[u8] = &bytes;
        for (k, (a, b)) in cases.iter().enumerate() {
            acc.eval();
            let marker = lock_marker(k);
            let Some(end) = rest.windows(marker.len()).position(|w| w == marker.as_slice()) else {
                acc.fail("lock-carries-state", json!({"flavour": flavour, "first": rt::hex(a), "second": rt::hex(b)}), format!("{flavour}: the output of case {k} is not terminated by its marker"));
                let _ = std::fs::remove_file(&file);
                return;
            };
            let got = &rest[..end];
            let whole: Vec<u8> = [a.as_slice(), b.as_slice()].concat();
            let want = if flavour.starts_with("always") { whole.clone() } else { strip_bytes_vec(&whole) };
            if got != want.as_slice() {
                acc.fail(
                    "lock-carries-state",
                    json!({"flavour": flavour, "first": rt::hex(a), "second": rt::hex(b)}),
                    format!("{flavour}: write_all({}) ; lock() ; write_all({}) delivered {} but the stream without the lock() delivers {}", esc(a), esc(b), esc(got), esc(&want)),
                );
                let _ = std::fs::remove_file(&file);
                return;
            }
            // non-trivial: the lock() happened inside an escape sequence or a multi-byte character
            let mut m = vt::Machine::new();
            m.feed_all(a);
            if m.st != St::Ground && !b.is_empty() {
                acc.nontrivial(digest_str(&format!("{flavour}{}{}", rt::hex(a), rt::hex(b))));
            }
            rest = &rest[end + marker.len()..];
        }
    }
    let _ = std::fs::remove_file(&file);
}

fn lock_cases(seed: u64, n: usize) -> Vec<(Vec<u8>, Vec<u8>)> {
    let strat = (prop_oneof![gen::stream(StreamCfg { max_items: 10, ..StreamCfg::ALL }), gen::stream(StreamCfg { max_items: 10, ..StreamCfg::UTF8 })], any::<u16>(), any::<bool>());
    let mut out: Vec<(Vec<u8>, Vec<u8>)> = vec![
        (b"A\x1b[".to_vec(), b"1;31mB\x1b[0mC".to_vec()),
        (b"A\x1b]0;ti".to_vec(), b"tle\x07B".to_vec()),
        (b"A\xe2".to_vec(), b"\x9c\x93B".to_vec()),
        (b"A\x1bP1;2".to_vec(), b"q\x1b\\B".to_vec()),
        (b"".to_vec(), b"x".to_vec()),
        (b"x\x1b".to_vec(), b"".to_vec()),
    ];
    for (items, frac, inside) in vcore::drive::sample_values(rt::derive_seed(seed, "lock-cases", 0), n, &strat) {
        let bytes = gen::render(&items);
        if bytes.windows(5).any(|w| w == b"@@END") {
            continue;
        }
        let inner = gen::interior_cuts(&bytes);
        let cut = if inside && !inner.is_empty() { inner[(frac as usize * inner.len()) >> 16] } else { (frac as usize * (bytes.len() + 1)) >> 16 };
        out.push((bytes[..cut].to_vec(), bytes[cut..].to_vec()));
    }
    out
}

fn replay(_sub: &str, case: &Value) -> Result<(), String> {
    if _sub == "lock-carries-state" {
        let (a, b) = (rt::unhex(case["first"].as_str().unwrap_or("")), rt::unhex(case["second"].as_str().unwrap_or("")));
        let mut acc = Acc::new();
        let mut notes = vec![];
        check_lock(&[(a, b)], &mut acc, &mut notes);
        return match acc.failure {
            Some(f) => Err(f.message),
            None => Ok(()),
        };
    }
    let case: Case = serde_json::from_value(case.clone()).map_err(|e| format!("bad case: {e}"))?;
    colorchoice::ColorChoice::Auto.write_global();
    check_case(&case).map(|_| ())
}

fn main() {
    let argv: Vec<String> = std::env::args().collect();
    if argv.get(1).map(|s| s.as_str()) == Some("--lock-child") {
        lock_child(argv.get(2).map(|s| s.as_str()).unwrap_or(""), argv.get(3).map(|s| s.as_str()).unwrap_or(""));
        return;
    }
    rt::quiet_panics();
    rt::main("C08", RULE, run, &replay)
}
