//! C15 — roff rendering preserves text, colours and font per segment.
use proptest::prelude::*;
use serde::{Deserialize, Serialize};
use serde_json::{json, Value};
use vcore::drive::{prop_par, Verdict};
use vcore::rt::{self, digest_str, esc, Acc, Args, Report};
use vcore::sgr;

const RULE: &str = "Inputs (the domain stated in the property): texts made of segments, each introduced by one self-contained SGR sequence CSI 0;<codes> m with any subset of 1,2,3,4,5,7,8,9 (never 1 and 2 together), at most one of 30-37/90-97 and one of 40-47/100-107, codes in generated order; segment text over letters, space, '.', apostrophe, backslash, hyphen, double quote, newline (incl. leading '.' and apostrophe after a newline) and multi-byte characters; optional unstyled text first. Exhaustively all 17x17 colour pairs x 192 effect subsets for a single segment; random lists of 1..6 segments. Oracle: a roff reader (only .gcolor/.fcolor/.defcolor requests allowed, exactly one colour pair before each text block, escapes \\\\ \\- \\& \\fB \\fI \\fR and in render() \\*(Aq undone) must give back, per segment, the colours ('default' when unset, bright = same name), the font (bold if bold or bright foreground, else italic if italic, else roman) and the text. Ambient environment: a small exhaustive family re-run under an environment that says no-colour in every convention and one that forces colour (the document depends on the text alone). Non-trivial = at least 2 segments or a text with a character that needs escaping (distinct by input).";

const NAMES: [&str; 8] = ["black", "red", "green", "yellow", "blue", "magenta", "cyan", "white"];

#[derive(Clone, Debug, Serialize, Deserialize, PartialEq)]
struct Seg {
    /// palette index 0..16
    fg: Option<u8>,
    bg: Option<u8>,
    /// subset of BOLD DIMMED ITALIC UNDERLINE BLINK INVERT HIDDEN STRIKETHROUGH
    effects: u16,
    text: String,
    /// order in which the codes are written (permutation seed)
    order: u32,
    /// false = no introducing sequence (only for the first segment)
    styled: bool,
}

const EFFECT_CODES: [(u16, u8); 8] = [
    (sgr::BOLD, 1),
    (sgr::DIMMED, 2),
    (sgr::ITALIC, 3),
    (sgr::UNDERLINE, 4),
    (sgr::BLINK, 5),
    (sgr::INVERT, 7),
    (sgr::HIDDEN, 8),
    (sgr::STRIKETHROUGH, 9),
];

fn render_input(segs: &[Seg]) -> String {
    let mut s = String::new();
    for seg in segs {
        if seg.styled {
            let mut codes: Vec<u8> = EFFECT_CODES.iter().filter(|(b, _)| seg.effects & b != 0).map(|(_, c)| *c).collect();
            if let Some(k) = seg.fg {
                codes.push(if k < 8 { 30 + k } else { 90 + k - 8 });
            }
            if let Some(k) = seg.bg {
                codes.push(if k < 8 { 40 + k } else { 100 + k - 8 });
            }
            // deterministic shuffle
            let mut x = seg.order as u64;
            for i in (1..codes.len()).rev() {
                x = rt::mix(x);
                codes.swap(i, (x % (i as u64 + 1)) as usize);
            }
            s.push_str("\x1b[0");
            for c in codes {
                s.push_str(&format!(";{c}"));
            }
            s.push('m');
        }
        s.push_str(&seg.text);
    }
    s
}

impl std::fmt::Debug for Block {
    fn fmt(&self, f: &mut std::fmt::Formatter<'_>) -> std::fmt::Result {
        write!(f, "Block {{ gcolor: {:?}, fcolor: {:?}, font: {:?}, text: {:?} }}", self.gcolor, self.fcolor, self.font, self.text)
    }
}

#[derive(Clone, PartialEq, Eq)]
struct Block {
    gcolor: String,
    fcolor: String,
    /// font of the block when all its glyphs share one (for messages); see `fonts`
    font: char,
    text: String,
    /// font in force for each character of `text`
    #[allow(dead_code)]
    fonts: Vec<char>,
}

/// the roff reader
/// `bare_lead_in`: the input starts with text that no escape sequence introduces - outside the
/// property's "segments each introduced by one sequence"; such a lead-in may come with the two
/// `default` colour requests (as it always has) or without any request at all
fn read_roff(doc: &str, with_preamble: bool, bare_lead_in: bool) -> Result<Vec<Block>, String> {
    let mut rest = doc;
    if with_preamble {
        let pre = ".ie \\n(.g .ds Aq \\(aq\n.el .ds Aq '\n";
        rest = rest.strip_prefix(pre).ok_or("render(): apostrophe preamble missing")?;
    }
    if !rest.is_empty() && !rest.ends_with('\n') {
        return Err("document does not end with a newline".into());
    }
    let lines: Vec<&str> = if rest.is_empty() { vec![] } else { rest[..rest.len() - 1].split('\n').collect() };
    let mut blocks = vec![];
    let mut i = 0;
    let mut defined: Vec<(String, String)> = vec![];
    while i < lines.len() {
        // colour requests
        let mut colours: Vec<(String, String)> = vec![];
        while i < lines.len() && (lines[i].starts_with('.') || lines[i].starts_with('\'')) {
            let l = lines[i];
            let parts: Vec<&str> = l.split(' ').collect();
            match parts.as_slice() {
                [".gcolor", c] | [".fcolor", c] => {
                    if !(NAMES.contains(c) || *c == "default" || defined.iter().any(|(n, _)| n == c)) {
                        return Err(format!("colour request {l:?} names an undefined colour"));
                    }
                    colours.push((parts[0].to_owned(), (*c).to_owned()));
                }
                [".defcolor", name, "rgb", hex] => {
                    if !(hex.len() == 7 && hex.starts_with('#') && hex[1..].bytes().all(|b| b.is_ascii_hexdigit())) {
                        return Err(format!("malformed colour definition {l:?}"));
                    }
                    defined.push(((*name).to_owned(), (*hex).to_owned()));
                }
                _ => return Err(format!("the document contains the request line {l:?}, which is not a colour request: text was able to introduce a request, or an unknown request is emitted")),
            }
            i += 1;
        }
        if bare_lead_in && blocks.is_empty() && colours.is_empty() {
            colours = vec![(".gcolor".to_owned(), "default".to_owned()), (".fcolor".to_owned(), "default".to_owned())];
        }
        if colours.len() != 2 || colours[0].0 != ".gcolor" || colours[1].0 != ".fcolor" {
            return Err(format!("expected exactly one .gcolor and one .fcolor before a text block, found {:?}", colours));
        }
        // text block: up to the next request line
        let mut raw: Vec<&str> = vec![];
        while i < lines.len() && !(lines[i].starts_with('.') || lines[i].starts_with('\'')) {
            raw.push(lines[i]);
            i += 1;
        }
        if raw.is_empty() {
            return Err("colour requests without a text block".into());
        }
        let joined = raw.join("\n");
        // un-escape
        let mut text = String::new();
        let mut fonts: Vec<char> = vec![];
        let mut font = 'R';
        let mut it = joined.chars().peekable();
        while let Some(c) = it.next() {
            if c != '\\' {
                text.push(c);
                fonts.push(font);
                continue;
            }
            match it.next() {
                Some('\\') => {
                    text.push('\\');
                    fonts.push(font);
                }
                Some('-') => {
                    text.push('-');
                    fonts.push(font);
                }
                Some('&') => {}
                Some('f') => match it.next() {
                    Some(f @ ('B' | 'I' | 'R')) => font = f,
                    other => return Err(format!("unknown font escape \\f{:?}", other)),
                },
                Some('*') if with_preamble => {
                    let a: String = it.by_ref().take(3).collect();
                    if a != "(Aq" {
                        return Err(format!("unknown string escape \\*{a}"));
                    }
                    text.push('\'');
                    fonts.push(font);
                }
                other => return Err(format!("unknown escape \\{:?} in the text block {:?}", other, joined)),
            }
        }
        if font != 'R' {
            return Err(format!("text block {:?} does not return to the roman font", joined));
        }
        // the font of a newline is not observable: what counts is the font of every glyph
        let glyph_fonts: std::collections::BTreeSet<char> = text.chars().zip(fonts.iter()).filter(|(c, _)| *c != '\n').map(|(_, f)| *f).collect();
        // a colour defined by .defcolor is reported by its hex value
        let resolve = |n: &String| defined.iter().rev().find(|(d, _)| d == n).map(|(_, h)| h.to_ascii_lowercase()).unwrap_or_else(|| n.clone());
        blocks.push(Block {
            gcolor: resolve(&colours[0].1),
            fcolor: resolve(&colours[1].1),
            font: if glyph_fonts.len() == 1 { *glyph_fonts.iter().next().unwrap() } else if glyph_fonts.is_empty() { '*' } else { '?' },
            text,
            fonts,
        });
    }
    Ok(blocks)
}

fn colour_name(k: Option<u8>) -> String {
    match k {
        None => "default".to_owned(),
        Some(k) => NAMES[k as usize & 7].to_owned(),
    }
}

fn expected_blocks(segs: &[Seg]) -> Vec<Block> {
    let mut out: Vec<Block> = vec![];
    for s in segs {
        if s.text.is_empty() {
            continue;
        }
        let bright_fg = matches!(s.fg, Some(k) if k >= 8);
        let font = if s.effects & sgr::BOLD != 0 || bright_fg {
            'B'
        } else if s.effects & sgr::ITALIC != 0 {
            'I'
        } else {
            'R'
        };
        let b = Block { gcolor: colour_name(s.fg), fcolor: colour_name(s.bg), font, text: s.text.clone(), fonts: s.text.chars().map(|_| font).collect() };
        out.push(b);
    }
    merge(out)
}

/// merge neighbours with the same colours and font (insensitive to where the
/// renderer splits segments)
fn merge(blocks: Vec<Block>) -> Vec<Block> {
    let mut out: Vec<Block> = vec![];
    for b in blocks {
        match out.last_mut() {
            Some(l) if l.gcolor == b.gcolor && l.fcolor == b.fcolor && l.font == b.font => {
                l.text.push_str(&b.text);
                l.fonts.extend(b.fonts);
            }
            _ => out.push(b),
        }
    }
    out
}

fn check(segs: &[Seg]) -> Result<bool, String> {
    let input = render_input(segs);
    let doc = anstyle_roff::to_roff(&input);
    let want = expected_blocks(segs);
    for (what, text, pre) in [("to_roff()", doc.to_roff(), false), ("render()", doc.render(), true)] {
        let got = merge(read_roff(&text, pre, segs.first().is_some_and(|s| !s.styled)).map_err(|e| format!("{what} of {}: {e}", esc(input.as_bytes())))?);
        // compared character by character: colours exactly, the font of every glyph exactly, the font
        // of a newline (which has no glyph) not at all - insensitive to where the renderer splits
        // a segment and to whether a font span covers embedded newlines
        let flat = |bs: &[Block]| -> Vec<(char, String, String, char)> {
            bs.iter().flat_map(|b| b.text.chars().zip(b.fonts.iter()).map(|(c, f)| (c, b.gcolor.clone(), b.fcolor.clone(), if c == '\n' { '*' } else { *f })).collect::<Vec<_>>()).collect()
        };
        if flat(&got) != flat(&want) {
            let i = got.iter().zip(want.iter()).position(|(a, b)| a != b).unwrap_or(got.len().min(want.len()));
            return Err(format!(
                "{what} of {}: segment #{i} reads back as {:?}, expected {:?} (document {:?})",
                esc(input.as_bytes()),
                got.get(i),
                want.get(i),
                text
            ));
        }
    }
    let needs_escape = segs.iter().any(|s| s.text.contains(['\\', '-', '\'', '.']));
    Ok(want.len() >= 2 || needs_escape)
}

fn arb_text() -> BoxedStrategy<String> {
    let mixed = proptest::collection::vec(
        prop_oneof![
            4 => "[a-zA-Z ]{1,6}",
            2 => prop::sample::select(vec![".", "'", "\\", "-", "\"", "\n", "\n.", "\n'", ".\n", "..", "'.", "\\-", "\\&", "\\fB", "\\n", "--", "\n\n", " \n .", ".gcolor red", "\n.fcolor blue\n", "\n.so /etc/passwd", "\\*(Aq"]).prop_map(|s| s.to_owned()),
            1 => prop::sample::select(vec!["é", "漢", "😀", "ß", "\u{a0}"]).prop_map(|s| s.to_owned()),
            2 => "[ -~]{1,10}",
        ],
        1..=5,
    )
    .prop_map(|v| v.concat());
    // whole texts of the shapes found in command-line help and manual pages: the look of a text must
    // not influence how it is set
    let shaped = prop::sample::select(vec![
        "<FILE>", "<a>", "<A|B>", "<>", "<FILE", "FILE>", "x<FILE>", "[OPTIONS]", "[-h]", "--help", "-h, --help", "FILE...", "{x}", "$HOME", "a=b", "100%", "#1", "~/x", "`cmd`", "(s)",
        "*bold*", "_it_", "<b>x</b>", "&amp;", "NAME", "SYNOPSIS", "foo(1)", "\"q\"", "'q'", "1.", "- item", "=====", "a\tb", "http://x/y?z=1&w=2", "C:\\dir", "@x", "^", "|",
    ])
    .prop_map(|s| s.to_owned());
    prop_oneof![5 => mixed, 2 => shaped]
    .boxed()
}

fn arb_seg(first: bool) -> impl Strategy<Value = Seg> {
    (
        proptest::option::weighted(0.6, 0u8..16),
        proptest::option::weighted(0.5, 0u8..16),
        any::<u8>(),
        arb_text(),
        any::<u32>(),
        if first { prop::bool::weighted(0.7).boxed() } else { Just(true).boxed() },
    )
        .prop_map(|(fg, bg, bits, text, order, styled)| {
            let mut effects = 0u16;
            for (i, (b, _)) in EFFECT_CODES.iter().enumerate() {
                if bits >> i & 1 == 1 {
                    effects |= b;
                }
            }
            if effects & sgr::BOLD != 0 && effects & sgr::DIMMED != 0 {
                effects &= !sgr::DIMMED; // F15 domain exclusion
            }
            if styled {
                Seg { fg, bg, effects, text, order, styled }
            } else {
                Seg { fg: None, bg: None, effects: 0, text, order, styled }
            }
        })
}

fn arb_segs() -> impl Strategy<Value = Vec<Seg>> {
    (arb_seg(true), proptest::collection::vec(arb_seg(false), 0..6), proptest::collection::vec((any::<u16>(), 0u8..3), 0..3)).prop_map(|(a, mut v, echoes)| {
        v.insert(0, a);
        // repetition: a segment takes over the text (0), the style (1) or both (2) of its
        // predecessor - neighbouring segments with the same text or the same look
        for (frac, kind) in echoes {
            if v.len() < 2 {
                break;
            }
            let i = 1 + ((frac as usize * (v.len() - 1)) >> 16);
            let prev = v[i - 1].clone();
            if !v[i].styled {
                continue;
            }
            match kind {
                0 => v[i].text = prev.text,
                1 if prev.styled => {
                    v[i].fg = prev.fg;
                    v[i].bg = prev.bg;
                    v[i].effects = prev.effects;
                }
                2 if prev.styled => v[i] = prev,
                _ => {}
            }
        }
        v
    })
}

/// documents of many segments (counts around powers of two) and documents with one long text
fn arb_many_segs() -> impl Strategy<Value = Vec<Seg>> {
    (
        arb_seg(true),
        proptest::collection::vec(arb_seg(false), 3..=12),
        prop::sample::select(vec![15usize, 16, 17, 127, 128, 129, 255, 256, 257, 258, 300, 511, 512, 513, 1025]),
    )
        .prop_map(|(a, pool, n)| {
            let mut v = vec![a];
            for i in 1..n {
                let mut s = pool[(i * 5 + i / pool.len()) % pool.len()].clone();
                // distinguishable texts, so that a dropped or repeated segment is noticed
                s.text = format!("{}{}", s.text, i);
                v.push(s);
            }
            v
        })
}

fn run(args: &Args, rep: &mut Report) {
    let tier = args.tier;
    rep.assume("styles accumulated over several sequences, 256-colour/RGB colours, bold+dim in one sequence, zero-padded parameters and non-SGR sequences (OSC, ESC x) are outside the explored domain (open findings F12, F13, F15, F27, F31 - all in the cansi parser - replayed as fixed inputs)");
    // exhaustive single segment
    let n = rt::workers();
    let accs = rt::par(n, |w| {
        let mut acc = Acc::new();
        for fg in (0..17u8).filter(|f| *f as usize % n == w % 17 && (w < 17)) {
            for bg in 0..17u8 {
                for bits in 0..256u16 {
                    let mut effects = 0u16;
                    for (i, (b, _)) in EFFECT_CODES.iter().enumerate() {
                        if bits >> i & 1 == 1 {
                            effects |= b;
                        }
                    }
                    if effects & sgr::BOLD != 0 && effects & sgr::DIMMED != 0 {
                        acc.class("excluded:bold-and-dim (F15)");
                        continue;
                    }
                    let seg = Seg {
                        fg: (fg < 16).then_some(fg),
                        bg: (bg < 16).then_some(bg),
                        effects,
                        text: "x-.y".to_owned(),
                        order: bits as u32 * 31 + fg as u32,
                        styled: true,
                    };
                    acc.eval();
                    match rt::guarded(|| check(std::slice::from_ref(&seg))) {
                        Ok(_) => {
                            acc.nontrivial_distinct();
                            acc.sample(|| json!({"input": esc(render_input(std::slice::from_ref(&seg)).as_bytes())}));
                        }
                        Err(m) => {
                            acc.fail("single-segment", serde_json::to_value(vec![seg]).unwrap(), m);
                            return acc;
                        }
                    }
                }
            }
        }
        acc
    });
    rep.add("single-segment", true, "17 x 17 colour pairs x 192 effect subsets (bold+dim excluded), one segment", accs);
    // the document is a function of the styled text alone: the same under an environment that says
    // "no colour" in every convention and under one that forces colour (single-threaded: the
    // environment is process-wide)
    {
        let mut acc = Acc::new();
        'env: for (name, vars) in rt::HOSTILE_ENVS {
            for fg in 0..17u8 {
                for bg in 0..17u8 {
                    for effects in [0, sgr::BOLD, sgr::ITALIC, sgr::BOLD | sgr::ITALIC | sgr::UNDERLINE] {
                        let segs = vec![
                            Seg { fg: (fg < 16).then_some(fg), bg: (bg < 16).then_some(bg), effects, text: "x-.y".to_owned(), order: fg as u32 * 17 + bg as u32, styled: true },
                            Seg { fg: (bg < 16).then_some(bg), bg: None, effects: 0, text: "'z\\".to_owned(), order: 3, styled: true },
                        ];
                        acc.eval();
                        match rt::with_env(vars, || rt::guarded(|| check(&segs))) {
                            Ok(_) => {
                                acc.nontrivial_distinct();
                                acc.sample(|| json!({"environment": name, "input": esc(render_input(&segs).as_bytes())}));
                            }
                            Err(m) => {
                                acc.fail("ambient-environment", json!({"environment": name, "segments": segs}), format!("under the environment '{name}' {vars:?}: {m}"));
                                break 'env;
                            }
                        }
                    }
                }
            }
        }
        rep.add("ambient-environment", true, "2 environments (every no-colour convention / every force-colour convention) x 17 x 17 colour pairs x 4 effect sets, two segments", vec![acc]);
    }
    rep.add(
        "segment-lists",
        false,
        "1..7 segments, text over the roff-special alphabet",
        prop_par(
            "segment-lists",
            args.seed,
            tier.pick(40_000, 10_000_000),
            arb_segs,
            |segs, _| match check(segs) {
                Ok(nt) => Verdict::ok(nt.then(|| digest_str(&render_input(segs)))),
                Err(m) => Verdict { result: Err(m), nontrivial: None },
            },
            |segs| serde_json::to_value(segs).unwrap(),
        ),
    );
    rep.add(
        "many-segments",
        false,
        "15..1025 segments (counts around powers of two) with distinguishable texts",
        prop_par(
            "many-segments",
            args.seed,
            tier.pick(600, 60_000),
            arb_many_segs,
            |segs, _| match check(segs) {
                Ok(_) => Verdict::ok(Some(digest_str(&render_input(segs)))),
                Err(m) => Verdict { result: Err(m), nontrivial: None },
            },
            |segs| serde_json::to_value(segs).unwrap(),
        ),
    );
}

fn replay(sub: &str, case: &Value) -> Result<(), String> {
    if sub == "raw-input" {
        // known findings outside the generated domain: raw input + expected blocks
        let input = case["input"].as_str().ok_or("bad case")?;
        let want: Vec<Block> = case["expected"]
            .as_array()
            .ok_or("bad case")?
            .iter()
            .map(|b| Block {
                gcolor: b["gcolor"].as_str().unwrap_or("").to_owned(),
                fcolor: b["fcolor"].as_str().unwrap_or("").to_owned(),
                font: b["font"].as_str().unwrap_or("R").chars().next().unwrap_or('R'),
                text: b["text"].as_str().unwrap_or("").to_owned(),
                fonts: b["text"].as_str().unwrap_or("").chars().map(|_| b["font"].as_str().unwrap_or("R").chars().next().unwrap_or('R')).collect(),
            })
            .collect();
        let doc = anstyle_roff::to_roff(input).to_roff();
        let got = merge(read_roff(&doc, false, false)?);
        // a defined colour is compared by its definition
        if got != want {
            return Err(format!("to_roff({}) reads back as {:?}, expected {:?}", esc(input.as_bytes()), got, want));
        }
        return Ok(());
    }
    if sub == "ambient-environment" {
        let segs: Vec<Seg> = serde_json::from_value(case["segments"].clone()).map_err(|e| format!("bad case: {e}"))?;
        let name = case["environment"].as_str().unwrap_or("");
        let vars = rt::HOSTILE_ENVS.iter().find(|(n, _)| *n == name).map(|(_, v)| *v).ok_or("unknown environment")?;
        return rt::with_env(vars, || check(&segs)).map(|_| ());
    }
    let segs: Vec<Seg> = serde_json::from_value(case.clone()).map_err(|e| format!("bad case: {e}"))?;
    check(&segs).map(|_| ())
}

fn main() {
    rt::quiet_panics();
    rt::main("C15", RULE, run, &replay)
}
