//! C10 — lossy colour conversion is total, exact on exact matches and nearest otherwise.
use anstyle::{Ansi256Color, AnsiColor, Color, RgbColor};
use anstyle_lossy::palette::Palette;
use proptest::prelude::*;
use serde_json::{json, Value};
use vcore::drive::{prop_par, sample_values, Verdict};
use vcore::palette::{self, nearest, xterm240, Rgb};
use vcore::rt::{self, Acc, Args, Report};
use vcore::sgr::{ansi_index, ANSI_COLORS};

const RULE: &str = "Inputs: RGB values from a 18^3 lattice, every candidate colour +-1 per channel, midpoints (+-1) between pairs of candidates, seeded random values (quick); ALL 2^24 RGB values (thorough). Targets: the 240 fixed colours of the 256-colour palette, and the 16-colour palette under VGA, Windows-10 and 22 more palettes (incl. entries one channel step apart) (all-equal, duplicated entries, extremes only, 8 palettes clustered within 16 units of one cube corner each, an 8-colour palette doubled, halves swapped, 4 doubled palettes with sum-preserving transfers inside the bright half, 3 seeded random). All 256 indices and 16 palette colours for the remaining conversions. Oracle: brute-force search in i64 with the published red-mean weighted distance ((2 + rm/256) dR^2 + 4 dG^2 + (2 + (255-rm)/256) dB^2, exact in integers), lowest index on ties; table by formula. Non-trivial = the input is not itself a candidate (distance > 0), distinct by (input, palette); ties are counted as a class.";

fn to_rgb(c: Rgb) -> RgbColor {
    RgbColor(c.0, c.1, c.2)
}
fn from_rgb(c: RgbColor) -> Rgb {
    (c.0, c.1, c.2)
}
fn pal(p: &[Rgb; 16]) -> Palette {
    let mut raw = [RgbColor(0, 0, 0); 16];
    for (i, c) in p.iter().enumerate() {
        raw[i] = to_rgb(*c);
    }
    Palette(raw)
}

struct Ctx {
    xterm: Vec<Rgb>,
    palettes: Vec<(String, [Rgb; 16])>,
}

fn palettes(seed: u64) -> Vec<(String, [Rgb; 16])> {
    let mut v = vec![("VGA".to_owned(), palette::VGA), ("WIN10".to_owned(), palette::WIN10)];
    v.push(("all-equal".to_owned(), [(7, 7, 7); 16]));
    let mut dup = palette::VGA;
    dup[3] = dup[1];
    dup[9] = dup[1];
    dup[15] = dup[0];
    v.push(("duplicates".to_owned(), dup));
    let mut ext = [(0u8, 0u8, 0u8); 16];
    for (i, e) in ext.iter_mut().enumerate() {
        *e = (if i & 1 != 0 { 255 } else { 0 }, if i & 2 != 0 { 255 } else { 0 }, if i & 4 != 0 { 255 } else { 0 });
    }
    v.push(("extremes".to_owned(), ext));
    // clustered palettes: all 16 entries within 16 units of one corner of the cube, so that inputs
    // near the opposite corner are far from every entry (entry 0, the corner itself, the farthest)
    for corner in 0..8usize {
        let mut p = [(0u8, 0u8, 0u8); 16];
        for (i, e) in p.iter_mut().enumerate() {
            let ch = |bit: usize, k: usize| -> u8 {
                let off = ((i * k) % 16) as u8;
                if corner & bit != 0 { 255 - off } else { off }
            };
            *e = (ch(1, 1), ch(2, 3), ch(4, 5));
        }
        v.push((format!("cluster-{corner}"), p));
    }
    // near-duplicates: pairs of entries one channel step apart, the pair's members at different indices
    let mut near = palette::VGA;
    near[8] = (near[7].0, near[7].1 + 1, near[7].2);
    near[3] = (near[2].0, near[2].1, near[2].2 + 1);
    near[12] = (near[11].0 - 1, near[11].1, near[11].2);
    near[15] = (near[14].0, near[14].1 - 1, near[14].2);
    v.push(("near-duplicates".to_owned(), near));
    let mut ramp = [(0u8, 0u8, 0u8); 16];
    for (i, e) in ramp.iter_mut().enumerate() {
        // a grey ramp in single steps, and the same in blue only
        *e = if i < 8 { (100 + i as u8, 100 + i as u8, 100 + i as u8) } else { (10, 20, 200 + (i as u8 - 8)) };
    }
    v.push(("single-step-ramps".to_owned(), ramp));
    // 8-colour palettes (bright half = normal half), plain and with sum-preserving transfers inside the
    // bright half: the halves then differ although every aggregate (per-channel sums) is equal
    let mut doubled = palette::VGA;
    for i in 0..8 {
        doubled[8 + i] = doubled[i];
    }
    v.push(("doubled".to_owned(), doubled));
    let mut swapped = palette::VGA;
    for i in 0..8 {
        swapped.swap(i, 8 + i);
    }
    v.push(("halves-swapped".to_owned(), swapped));
    let transfers = sample_values(rt::derive_seed(seed, "transfers", 0), 3, &proptest::collection::vec((8usize..16, 8usize..16, 0usize..3, 1u8..=170), 1..4));
    for (k, ts) in transfers.into_iter().enumerate() {
        let mut p = doubled;
        for (i, j, ch, d) in ts {
            if i == j {
                continue;
            }
            let get = |e: Rgb| [e.0, e.1, e.2][ch];
            let d = d.min(255 - get(p[i])).min(get(p[j]));
            let add = |e: &mut Rgb, delta: i16| {
                let c = match ch {
                    0 => &mut e.0,
                    1 => &mut e.1,
                    _ => &mut e.2,
                };
                *c = (*c as i16 + delta) as u8;
            };
            add(&mut p[i], d as i16);
            add(&mut p[j], -(d as i16));
        }
        v.push((format!("doubled-transfer-{k}"), p));
    }
    // the fixed instance of that family: red moved from entry 13 to entry 9
    let mut fixed = doubled;
    fixed[9].0 = 255;
    fixed[13].0 = fixed[13].0.saturating_sub(255 - doubled[9].0);
    v.push(("doubled-transfer-fixed".to_owned(), fixed));
    let rnd = sample_values(rt::derive_seed(seed, "palettes", 0), 3, &proptest::array::uniform16((any::<u8>(), any::<u8>(), any::<u8>())));
    for (i, p) in rnd.into_iter().enumerate() {
        v.push((format!("random-{i}"), p));
    }
    v
}

/// all RGB-input conversions on one colour
#[inline]
fn check_rgb(cx: &Ctx, c: Rgb, acc: &mut Acc, count: bool) -> Result<(), String> {
    let rc = to_rgb(c);
    // 256-colour target
    let (best, d, tie) = nearest(c, &cx.xterm);
    let want = (best + 16) as u8;
    let got = anstyle_lossy::rgb_to_xterm(rc);
    if got.0 != want {
        return Err(format!("rgb_to_xterm({:?}) = {} but the nearest of the 240 fixed colours is {} {:?} (distance {d})", c, got.0, want, xterm240(want as usize)));
    }
    if anstyle_lossy::color_to_xterm(Color::Rgb(rc)) != got {
        return Err(format!("color_to_xterm(Rgb{:?}) differs from rgb_to_xterm", c));
    }
    if count {
        acc.evals += 1;
        if d > 0 {
            acc.nontrivial_counted += 1;
        }
        if tie {
            acc.class("xterm-tie");
        }
    }
    // 16-colour targets
    for (name, p) in &cx.palettes {
        let (best, d, tie) = nearest(c, p);
        let got = anstyle_lossy::rgb_to_ansi(rc, pal(p));
        if ansi_index(got) as usize != best {
            return Err(format!("rgb_to_ansi({:?}, {name}) = {:?} (index {}) but the nearest palette entry is index {best} {:?} (distance {d})", c, got, ansi_index(got), p[best]));
        }
        if count {
            acc.evals += 1;
            if d > 0 {
                acc.nontrivial_counted += 1;
            }
            if tie {
                acc.class("ansi-tie");
            }
        }
    }
    Ok(())
}

fn check_rgb_extras(cx: &Ctx, c: Rgb) -> Result<(), String> {
    let rc = to_rgb(c);
    for (name, p) in &cx.palettes {
        let pp = pal(p);
        if anstyle_lossy::color_to_rgb(Color::Rgb(rc), pp) != rc {
            return Err(format!("color_to_rgb(Rgb{:?}, {name}) is not the identity", c));
        }
        if anstyle_lossy::color_to_ansi(Color::Rgb(rc), pp) != anstyle_lossy::rgb_to_ansi(rc, pp) {
            return Err(format!("color_to_ansi(Rgb{:?}, {name}) differs from rgb_to_ansi", c));
        }
    }
    Ok(())
}

fn check_tables(cx: &Ctx) -> Result<u64, String> {
    let mut n = 0;
    for (name, p) in &cx.palettes {
        let pp = pal(p);
        if Palette::from(pp.0) != pp {
            return Err("From<[Rgb;16]>".into());
        }
        for (k, a) in ANSI_COLORS.iter().enumerate() {
            n += 1;
            let want = to_rgb(p[k]);
            if pp.get(*a) != want || pp[*a] != want {
                return Err(format!("Palette({name}).get/index({:?})", a));
            }
            if anstyle_lossy::ansi_to_rgb(*a, pp) != want || anstyle_lossy::color_to_rgb(Color::Ansi(*a), pp) != want {
                return Err(format!("ansi_to_rgb({:?}, {name}) != palette entry", a));
            }
            if anstyle_lossy::color_to_ansi(Color::Ansi(*a), pp) != *a {
                return Err(format!("color_to_ansi(Ansi {:?}) not the identity", a));
            }
            if anstyle_lossy::color_to_xterm(Color::Ansi(*a)).0 as usize != k {
                return Err(format!("color_to_xterm(Ansi {:?}) != {k}", a));
            }
        }
        for i in 0..=255u8 {
            n += 1;
            let c = Ansi256Color(i);
            let want = if i < 16 { p[i as usize] } else { xterm240(i as usize) };
            let got = anstyle_lossy::xterm_to_rgb(c, pp);
            if from_rgb(got) != want {
                return Err(format!("xterm_to_rgb({i}, {name}) = {:?}, expected {:?}", got, want));
            }
            if anstyle_lossy::color_to_rgb(Color::Ansi256(c), pp) != got {
                return Err(format!("color_to_rgb(Ansi256({i}), {name}) differs from xterm_to_rgb"));
            }
            if anstyle_lossy::color_to_xterm(Color::Ansi256(c)) != c {
                return Err(format!("color_to_xterm(Ansi256({i})) not the identity"));
            }
            let got = anstyle_lossy::xterm_to_ansi(c, pp);
            let want_idx = if i < 16 { i as usize } else { nearest(xterm240(i as usize), p).0 };
            if ansi_index(got) as usize != want_idx {
                return Err(format!("xterm_to_ansi({i}, {name}) = {:?}, expected index {want_idx}", got));
            }
            if anstyle_lossy::color_to_ansi(Color::Ansi256(c), pp) != got {
                return Err(format!("color_to_ansi(Ansi256({i}), {name}) differs from xterm_to_ansi"));
            }
        }
    }
    // which palette is the default is not part of the property; it must be *a* palette the
    // conversions work with (it is one of the targets below when it equals a published table)
    if Palette::default() != anstyle_lossy::palette::DEFAULT {
        return Err("Palette::default() differs from palette::DEFAULT".into());
    }
    if anstyle_lossy::palette::VGA != pal(&palette::VGA) || anstyle_lossy::palette::WIN10_CONSOLE != pal(&palette::WIN10) {
        return Err("built-in palettes differ from the published tables".into());
    }
    let _ = AnsiColor::Black;
    Ok(n)
}

fn neighbours(c: Rgb) -> Vec<Rgb> {
    let mut v = vec![];
    for dr in -1i16..=1 {
        for dg in -1i16..=1 {
            for db in -1i16..=1 {
                let r = c.0 as i16 + dr;
                let g = c.1 as i16 + dg;
                let b = c.2 as i16 + db;
                if (0..=255).contains(&r) && (0..=255).contains(&g) && (0..=255).contains(&b) {
                    v.push((r as u8, g as u8, b as u8));
                }
            }
        }
    }
    v
}

fn run(args: &Args, rep: &mut Report) {
    let tier = args.tier;
    let cx = Ctx { xterm: palette::xterm_candidates(), palettes: palettes(args.seed) };
    rep.assume("the red-mean weighted distance is the published one (compuphase): dC^2 = (2 + rm/256) dR^2 + 4 dG^2 + (2 + (255-rm)/256) dB^2 with rm the mean of the two red values, evaluated exactly in integers (x 512)");

    let mut acc = Acc::new();
    match rt::guarded(|| check_tables(&cx)) {
        Ok(n) => {
            acc.evals = n;
            acc.nontrivial_counted = n;
            acc.samples.push(json!({"xterm_to_rgb": 196, "expected": format!("{:?}", xterm240(196))}));
        }
        Err(m) => acc.fail("tables-and-identities", json!({}), m),
    }
    rep.add("tables-and-identities", true, &format!("16 colours + 256 indices x {} palettes: table, identities, index bijection, xterm_to_ansi", cx.palettes.len()), vec![acc]);

    let n = rt::workers();
    // the complete RGB cube: all targets in the thorough tier, the 240-colour target and the
    // two published palettes in the quick tier (seeded palettes then only on the boundary set)
    let cube_cx = if tier == rt::Tier::Thorough { Ctx { xterm: cx.xterm.clone(), palettes: cx.palettes.clone() } } else { Ctx { xterm: cx.xterm.clone(), palettes: cx.palettes[..2].to_vec() } };
    {
        let cx = &cube_cx;
        let accs = rt::par(n, |w| {
            let mut acc = Acc::new();
            for r in (0..256usize).filter(|r| r % n == w) {
                for g in 0..256usize {
                    for b in 0..256usize {
                        let c = (r as u8, g as u8, b as u8);
                        if let Err(m) = check_rgb(cx, c, &mut acc, true) {
                            acc.fail("all-rgb", json!({"rgb": [c.0, c.1, c.2]}), m);
                            return acc;
                        }
                    }
                }
                acc.sample(|| json!({"rgb": [r, 128, 64]}));
            }
            acc
        });
        rep.add("all-rgb", true, &format!("all 2^24 RGB values x (240-colour target + {} palettes)", cube_cx.palettes.len()), accs);
    }
    if tier != rt::Tier::Thorough {
        // boundary set: lattice, candidates +-1, midpoints between candidates +-1
        let mut pts: Vec<Rgb> = vec![];
        let steps: Vec<u8> = (0..=255u16).step_by(15).map(|v| v as u8).collect();
        for &r in &steps {
            for &g in &steps {
                for &b in &steps {
                    pts.push((r, g, b));
                }
            }
        }
        let mut cands: Vec<Rgb> = cx.xterm.clone();
        for (_, p) in &cx.palettes {
            cands.extend_from_slice(p);
        }
        for c in &cands {
            pts.extend(neighbours(*c));
        }
        // midpoints of cube-neighbour pairs and palette pairs
        let mut pairs: Vec<(Rgb, Rgb)> = vec![];
        for (_, p) in &cx.palettes {
            for i in 0..16 {
                for j in i + 1..16 {
                    pairs.push((p[i], p[j]));
                }
            }
        }
        for i in 0..cx.xterm.len() {
            for j in i + 1..cx.xterm.len() {
                let (a, b) = (cx.xterm[i], cx.xterm[j]);
                let close = (a.0 as i32 - b.0 as i32).abs() <= 40 && (a.1 as i32 - b.1 as i32).abs() <= 40 && (a.2 as i32 - b.2 as i32).abs() <= 40;
                if close {
                    pairs.push((a, b));
                }
            }
        }
        for (a, b) in pairs {
            let mid = (((a.0 as u16 + b.0 as u16) / 2) as u8, ((a.1 as u16 + b.1 as u16) / 2) as u8, ((a.2 as u16 + b.2 as u16) / 2) as u8);
            pts.extend(neighbours(mid));
        }
        pts.sort();
        pts.dedup();
        let total = pts.len();
        let accs = rt::par(n, |w| {
            let mut acc = Acc::new();
            for c in pts.iter().skip(w).step_by(n) {
                if let Err(m) = check_rgb(&cx, *c, &mut acc, true).and_then(|_| check_rgb_extras(&cx, *c)) {
                    acc.fail("boundary-set", json!({"rgb": [c.0, c.1, c.2]}), m);
                    return acc;
                }
                acc.sample(|| json!({"rgb": [c.0, c.1, c.2]}));
            }
            acc
        });
        rep.add("boundary-set", true, &format!("{total} distinct points: 18^3 lattice, every candidate +-1, midpoints of candidate pairs +-1"), accs);
    }
    rep.add(
        "random-rgb",
        false,
        "seeded random RGB values",
        prop_par(
            "random-rgb",
            args.seed,
            tier.pick(100_000, 1_000_000),
            || (any::<u8>(), any::<u8>(), any::<u8>()),
            |c, acc| {
                acc.evals = acc.evals.saturating_sub(1);
                let before = acc.nontrivial_counted;
                let r = check_rgb(&cx, *c, acc, true).and_then(|_| check_rgb_extras(&cx, *c));
                let found = acc.nontrivial_counted - before;
                acc.nontrivial_counted = before;
                for k in 0..found {
                    acc.nontrivial(rt::mix(((c.0 as u64) << 16 | (c.1 as u64) << 8 | c.2 as u64) ^ (k << 32)));
                }
                Verdict { result: r, nontrivial: None }
            },
            |c| json!({"rgb": [c.0, c.1, c.2]}),
        ),
    );
}

fn replay(sub: &str, case: &Value) -> Result<(), String> {
    // replay uses the palettes of seed 0..=3 so that a seeded palette failure reproduces
    let seeds: Vec<u64> = std::env::var("VERIF_SEED").ok().and_then(|s| s.parse().ok()).map(|s| vec![s]).unwrap_or_else(|| vec![0, 1, 2, 3]);
    for seed in seeds {
        let cx = Ctx { xterm: palette::xterm_candidates(), palettes: palettes(seed) };
        if sub == "tables-and-identities" {
            check_tables(&cx)?;
            continue;
        }
        let a = case["rgb"].as_array().ok_or("bad case")?;
        let c = (a[0].as_u64().unwrap_or(0) as u8, a[1].as_u64().unwrap_or(0) as u8, a[2].as_u64().unwrap_or(0) as u8);
        check_rgb(&cx, c, &mut Acc::new(), false)?;
        check_rgb_extras(&cx, c)?;
    }
    Ok(())
}

fn main() {
    rt::quiet_panics();
    rt::main("C10", RULE, run, &replay)
}
