//! Thorough tier: run a bounded libFuzzer/ASan campaign for a target whose
//! oracle lives in `crate::oracle`, and turn a saved artifact into a failure
//! that replays without libFuzzer.
use serde_json::json;
use vcore::rt::{self, Acc, Args, Report};

pub fn campaign(rep: &mut Report, args: &Args, target: &str, runs: u64, oracle: fn(&[u8]) -> Result<(), String>) {
    let sub = format!("libfuzzer-{target}");
    let script = rt::verif_dir().join("scripts/fuzz.sh");
    let mut acc = Acc::new();
    for (mode, share) in [("corpus", runs * 2 / 3), ("empty", runs / 3)] {
        let out = std::process::Command::new(&script)
            .args(["run", target, &share.to_string(), &(args.seed.wrapping_add(1) % 1_000_000_007).to_string(), mode])
            .output();
        let out = match out {
            Ok(o) => o,
            Err(e) => {
                rep.note(&format!("libFuzzer campaign '{target}' could not be started: {e}"));
                return;
            }
        };
        let text = String::from_utf8_lossy(&out.stdout).to_string();
        if out.status.code() != Some(0) {
            rep.note(&format!("libFuzzer campaign '{target}' ({mode}) could not run: {}", rt::one_line(&text)));
            return;
        }
        let executed: u64 = text.split("executed=").nth(1).and_then(|s| s.split_whitespace().next()).and_then(|s| s.parse().ok()).unwrap_or(0);
        acc.evals += executed;
        acc.class_n(&format!("executed-from-{mode}"), executed);
        if let Some(path) = text.lines().find_map(|l| l.strip_prefix("ARTIFACT ")).and_then(|l| l.split_whitespace().next()) {
            let bytes = std::fs::read(path).unwrap_or_default();
            let msg = match rt::guarded(|| oracle(&bytes)) {
                Err(m) => m,
                Ok(()) => format!("libFuzzer (AddressSanitizer build) saved {path} but the oracle passes on it in this build: sanitizer-only finding, see {}", rt::verif_dir().join(format!("target/fuzz-{target}.log")).display()),
            };
            acc.fail(&sub, json!({"hex": rt::hex(&bytes), "fuzz_target": target, "artifact": path}), msg);
            break;
        }
    }
    // libFuzzer does not report which executions were non-trivial; count the corpus
    // entries it kept as distinct non-trivial cases (coverage-increasing inputs)
    acc.samples.push(json!({"target": target, "runs": runs, "engine": "libFuzzer + AddressSanitizer, -len_control=0 -max_len=4096"}));
    rep.add(&sub, false, &format!("cargo-fuzz target '{target}', {runs} runs (2/3 from the committed corpus, 1/3 from an empty corpus)"), vec![acc]);
}
