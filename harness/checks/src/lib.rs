//! Code shared by the check binaries that touches the crates under test.
pub mod fuzzrun;
pub mod oracle;
pub mod real;
