//! See Cargo.toml: same source as checks/src/bin/c19.rs, different feature set of anstream.
#[path = "../../checks/src/bin/c19.rs"]
mod c19;

fn main() {
    c19::main()
}
