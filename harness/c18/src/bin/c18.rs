//! C18 — the legacy-console stream hands over each text run once with 16-colour fg/bg.
//!
//! `anstream/src/wincon.rs` is only compiled on Windows, so the working-tree
//! file is included here by path, against shims of the two crate-internal
//! traits it imports.
#![allow(dead_code, unexpected_cfgs)]

pub mod adapter {
    pub use anstream::adapter::WinconBytes;
}

pub mod stream {
    //! shims of `anstream::stream::{AsLockedWrite, IsTerminal}` as they are on Windows
    pub trait IsTerminal {
        fn is_terminal(&self) -> bool;
    }
    pub trait AsLockedWrite {
        type Write<'w>: anstyle_wincon::WinconStream + std::io::Write + 'w
        where
            Self: 'w;
        fn as_locked_write(&mut self) -> Self::Write<'_>;
    }
}

#[path = "/repo/crates/anstream/src/fmt.rs"]
mod fmt;
#[path = "/repo/crates/anstream/src/wincon.rs"]
mod wincon;

use proptest::prelude::*;
use serde::{Deserialize, Serialize};
use serde_json::{json, Value};
use std::cell::RefCell;
use std::io::{ErrorKind, IoSlice, Write};
use std::rc::Rc;
use vcore::drive::{chunks_from_cuts, prop_par, Verdict};
use vcore::gen::{self, SgrStreamCfg, StreamCfg};
use vcore::rt::{self, digest_str, esc, Acc, Args, Report};
use vcore::sgr::{self, MColor, ANSI_COLORS};
use vcore::vt;
use wincon::WinconStream;

const RULE: &str = "Inputs and chunkings as in C07/C03 (valid-UTF-8 text + G-SGR + non-SGR sequences; plus arbitrary escape streams incl. malformed UTF-8 for the text/no-escape clauses), fed through write per chunk, write_all per chunk, write_vectored (also without any buffer), write! with arguments and write! with a bare literal format string, against (a) a recording console writer and (b) console writers that accept short counts or fail (write_all / write! drivers). Oracle: the recorded calls, flattened to (fg, bg, byte), == the reference SGR interpreter's per-character styles with colours reduced by the stated rule (palette -> itself, index < 16 -> palette colour, other indexed / RGB -> default); no 0x1B byte in any data argument; with faults: Ok => everything handed over exactly once, Err => the injected kind (WriteZero for a zero count), what was handed over is a prefix. write() against short counts / failing consoles is an open known finding (F14) and excluded by construction (counted). Non-trivial = at least one call hands over >= 2 runs with different capped colours (distinct by case).";

#[derive(Clone, Copy, Debug, PartialEq, Eq, Serialize, Deserialize)]
enum CResp {
    All,
    Short(u8),
    Zero,
    Interrupted,
    WouldBlock,
    Other,
}

#[derive(Clone, Debug)]
struct CCall {
    fg: Option<anstyle::AnsiColor>,
    bg: Option<anstyle::AnsiColor>,
    data: Vec<u8>,
    accepted: usize,
}

#[derive(Default)]
struct CLog {
    calls: Vec<CCall>,
    flushes: usize,
    faults: Vec<Result<usize, ErrorKind>>,
}

struct Console {
    script: std::collections::VecDeque<CResp>,
    log: Rc<RefCell<CLog>>,
}

impl anstyle_wincon::WinconStream for Console {
    fn write_colored(&mut self, fg: Option<anstyle::AnsiColor>, bg: Option<anstyle::AnsiColor>, data: &[u8]) -> std::io::Result<usize> {
        let r = if data.is_empty() { CResp::All } else { self.script.pop_front().unwrap_or(CResp::All) };
        let mut log = self.log.borrow_mut();
        let res = match r {
            CResp::All => Ok(data.len()),
            CResp::Short(n) => Ok((n as usize).clamp(1, data.len())),
            CResp::Zero => Ok(0),
            CResp::Interrupted => Err(ErrorKind::Interrupted),
            CResp::WouldBlock => Err(ErrorKind::WouldBlock),
            CResp::Other => Err(ErrorKind::Other),
        };
        let accepted = res.unwrap_or(0);
        if accepted < data.len() {
            log.faults.push(res);
        }
        log.calls.push(CCall { fg, bg, data: data.to_vec(), accepted });
        res.map_err(|k| std::io::Error::new(k, "injected"))
    }
}

impl Write for Console {
    fn write(&mut self, _buf: &[u8]) -> std::io::Result<usize> {
        panic!("the console stream must not use plain write on the console");
    }
    fn flush(&mut self) -> std::io::Result<()> {
        self.log.borrow_mut().flushes += 1;
        Ok(())
    }
}

impl stream::IsTerminal for Console {
    fn is_terminal(&self) -> bool {
        true
    }
}

impl stream::AsLockedWrite for Console {
    type Write<'w> = &'w mut Console;
    fn as_locked_write(&mut self) -> Self::Write<'_> {
        self
    }
}

type Cell3 = (Option<u8>, Option<u8>, u8);

fn cap(c: Option<MColor>) -> Option<u8> {
    match c {
        Some(MColor::Ansi(k)) => Some(k),
        Some(MColor::Idx(i)) if i < 16 => Some(i),
        _ => None,
    }
}

fn expected_cells(input: &[u8]) -> Vec<Cell3> {
    let mut v = vec![];
    for (st, ch) in sgr::styled_chars(input, vt::is_ws_control) {
        let mut b = [0u8; 4];
        for byte in ch.encode_utf8(&mut b).bytes() {
            v.push((cap(st.fg), cap(st.bg), byte));
        }
    }
    v
}

fn recorded_cells(log: &CLog) -> Result<Vec<Cell3>, String> {
    let mut v = vec![];
    for c in &log.calls {
        if c.data.contains(&0x1b) {
            return Err(format!("an escape byte was handed to the console as text: {}", esc(&c.data)));
        }
        let fg = c.fg.map(sgr::ansi_index);
        let bg = c.bg.map(sgr::ansi_index);
        for b in &c.data[..c.accepted] {
            v.push((fg, bg, *b));
        }
    }
    Ok(v)
}

#[derive(Clone, Copy, Debug, PartialEq, Eq, Serialize, Deserialize)]
enum Driver {
    Write,
    WriteAll,
    Vectored,
    Fmt,
    /// write! whose format string is a bare literal: the chunks are literals of vcore::lits
    Lit,
}

#[derive(Clone, Debug, Serialize, Deserialize)]
struct Case {
    hex: String,
    cuts: Vec<usize>,
    driver: Driver,
    script: Vec<CResp>,
    /// for Driver::Lit: the literal behind each chunk
    #[serde(default)]
    lits: Vec<usize>,
    /// compare colours (false: only text and the no-escape clause, for streams outside the SGR domain)
    colours: bool,
}

fn runs_with_two_colours(log: &CLog) -> bool {
    // calls are made per run; detect a buffer that produced >= 2 runs with different colours:
    // approximated by two consecutive calls with different (fg, bg)
    log.calls.windows(2).any(|w| (w[0].fg, w[0].bg) != (w[1].fg, w[1].bg))
}

/// One `write` / `write_vectored` call on a buffer with several runs against a console that fails
/// on its j-th call. Only the two clauses that do not depend on the state of the stream after a
/// failure (open findings F14 / F14b) are judged: the error reaches the caller, and the buffer is
/// not reported as consumed although text of it was never handed over. Returns Ok(non-trivial).
fn check_write_error(input: &[u8], ok_calls: usize, kind: CResp, vectored: bool) -> Result<bool, String> {
    let mut script = vec![CResp::All; ok_calls];
    script.push(kind);
    let log = Rc::new(RefCell::new(CLog::default()));
    let console = Console { script: script.into_iter().collect(), log: log.clone() };
    let mut s = WinconStream::new(console);
    let res = if vectored {
        let k = input.len() / 2;
        s.write_vectored(&[IoSlice::new(&[]), IoSlice::new(&input[..k]), IoSlice::new(&input[k..])])
    } else {
        s.write(input)
    };
    let offered = if vectored { input.len() / 2 } else { input.len() };
    let log = log.borrow();
    let failed: Vec<ErrorKind> = log.faults.iter().filter_map(|f| f.err()).collect();
    let Some(kind) = failed.first().copied() else {
        return Ok(false); // the buffer had too few runs for the script to reach its failure
    };
    match res {
        Err(e) if e.kind() == kind => {}
        // (a stream may also stop in front of the run that failed and report a shorter count)
        Ok(n) if n < offered.max(1) && offered > 0 => {}
        other => {
            return Err(format!(
                "input {} ({}): console call #{} failed with {kind:?} but the call returned {:?} for a buffer of {offered} bytes - the error does not reach the caller and text that was never handed over is reported as consumed",
                esc(input),
                if vectored { "write_vectored" } else { "write" },
                ok_calls + 1,
                other.as_ref().map_err(|e| e.kind())
            ))
        }
    }
    Ok(ok_calls >= 1)
}

fn check(case: &Case) -> Result<bool, String> {
    let input = rt::unhex(&case.hex);
    let log = Rc::new(RefCell::new(CLog::default()));
    let console = Console { script: case.script.iter().copied().collect(), log: log.clone() };
    let mut s = WinconStream::new(console);
    if !s.is_terminal() {
        return Err("is_terminal() not forwarded".into());
    }
    let chunks: Vec<&[u8]> = if case.driver == Driver::Lit {
        // the chunks are the literals themselves (the empty one included)
        let cat: Vec<u8> = case.lits.iter().flat_map(|i| vcore::lits::LITS[*i].as_bytes().to_vec()).collect();
        if cat != input {
            return Err("bad case: input is not the concatenation of the literals".into());
        }
        case.lits.iter().map(|i| vcore::lits::LITS[*i].as_bytes()).collect()
    } else {
        chunks_from_cuts(&input, &case.cuts)
    };
    let mut fed = 0usize;
    let mut error: Option<ErrorKind> = None;
    for (ci, c) in chunks.iter().enumerate() {
        let r: std::io::Result<()> = match case.driver {
            Driver::Lit => {
                let _ = c;
                vcore::lits::write_lit(&mut s, case.lits[ci], false)
            }
            Driver::Write => {
                let mut rest: &[u8] = c;
                let mut res = Ok(());
                while !rest.is_empty() {
                    match s.write(rest) {
                        Ok(0) => {
                            res = Err(std::io::Error::new(ErrorKind::WriteZero, "zero"));
                            break;
                        }
                        Ok(n) if n > rest.len() => return Err(format!("write returned {n} for {} bytes", rest.len())),
                        Ok(n) => rest = &rest[n..],
                        Err(e) if e.kind() == ErrorKind::Interrupted => {}
                        Err(e) => {
                            res = Err(e);
                            break;
                        }
                    }
                }
                res
            }
            Driver::WriteAll => s.write_all(c),
            Driver::Vectored => {
                let mut rest: &[u8] = c;
                let mut res = Ok(());
                while !rest.is_empty() {
                    let degenerate = if rest.len() % 2 == 1 { s.write_vectored(&[]) } else { s.write_vectored(&[IoSlice::new(&[]), IoSlice::new(&[])]) };
                    if !matches!(degenerate, Ok(0)) {
                        return Err(format!("write_vectored without data returned {degenerate:?}"));
                    }
                    let k = 1 + rest.len() / 2;
                    let bufs = [IoSlice::new(&[]), IoSlice::new(&rest[..k.min(rest.len())]), IoSlice::new(&rest[k.min(rest.len())..])];
                    match s.write_vectored(&bufs) {
                        Ok(0) => {
                            res = Err(std::io::Error::new(ErrorKind::WriteZero, "zero"));
                            break;
                        }
                        Ok(n) if n > rest.len() => return Err(format!("write_vectored returned {n} for {} bytes", rest.len())),
                        Ok(n) => rest = &rest[n..],
                        Err(e) => {
                            res = Err(e);
                            break;
                        }
                    }
                }
                res
            }
            Driver::Fmt => match std::str::from_utf8(c) {
                Ok(t) => {
                    let mid = (0..=t.len()).filter(|i| t.is_char_boundary(*i)).nth(t.chars().count() / 2).unwrap_or(0);
                    write!(s, "{}{}", &t[..mid], &t[mid..])
                }
                Err(_) => s.write_all(c),
            },
        };
        match r {
            Ok(()) => fed += c.len(),
            Err(e) => {
                error = Some(e.kind());
                break;
            }
        }
    }
    let log = log.borrow();
    let got = recorded_cells(&log)?;
    let hard: Vec<&Result<usize, ErrorKind>> = log.faults.iter().filter(|f| !matches!(f, Err(ErrorKind::Interrupted)) && !matches!(f, Ok(n) if *n > 0)).collect();
    let project = |v: Vec<Cell3>| -> Vec<Cell3> { if case.colours { v } else { v.into_iter().map(|(_, _, b)| (None, None, b)).collect() } };
    let got = project(got);
    match error {
        None => {
            if !hard.is_empty() {
                return Err(format!("the console answered {:?} but the stream reported success", hard));
            }
            let want = project(expected_cells(&input[..fed]));
            if got != want {
                let i = got.iter().zip(want.iter()).position(|(a, b)| a != b).unwrap_or(got.len().min(want.len()));
                return Err(format!(
                    "input {} chunks {:?} driver {:?}: console received {} cells, expected {}; first difference at byte #{i}: got {:?}, expected {:?} (fg, bg, byte)",
                    esc(&input), case.cuts, case.driver, got.len(), want.len(), got.get(i), want.get(i)
                ));
            }
        }
        Some(kind) => {
            let expected = match hard.first() {
                Some(Err(k)) => Some(*k),
                Some(Ok(_)) => Some(ErrorKind::WriteZero),
                None => None,
            };
            if expected != Some(kind) {
                return Err(format!("the stream failed with {kind:?} but the console answered {:?}", log.faults));
            }
            let want = project(expected_cells(&input));
            if !(got.len() <= want.len() && want[..got.len()] == got[..]) {
                return Err(format!("after the failure the console holds text that is not a prefix of the expected text (input {})", esc(&input)));
            }
        }
    }
    Ok(runs_with_two_colours(&log))
}

fn cuts_for(bytes: &[u8], mode: u8, fracs: &[u16]) -> Vec<usize> {
    let len = bytes.len();
    if len < 2 {
        return vec![];
    }
    match mode {
        0 | 1 => vec![],
        2 => (1..len).collect(),
        3 => gen::interior_cuts(bytes),
        _ => {
            let mut v: Vec<usize> = fracs.iter().map(|f| 1 + ((*f as usize * (len - 1)) >> 16)).collect();
            v.sort();
            v.dedup();
            v
        }
    }
}

fn arb_resp() -> impl Strategy<Value = CResp> {
    prop_oneof![
        5 => Just(CResp::All),
        3 => (1u8..4).prop_map(CResp::Short),
        1 => Just(CResp::Zero),
        2 => Just(CResp::Interrupted),
        1 => Just(CResp::WouldBlock),
        1 => Just(CResp::Other),
    ]
}

fn run(args: &Args, rep: &mut Report) {
    let tier = args.tier;
    rep.assume("the platform-independent source of the stream is compiled from /repo's working tree against shims of crate::stream::{AsLockedWrite, IsTerminal}; it cannot be built by its own crate on this platform");
    rep.assume("domain of SGR sequences as in C07");
    let cfg = SgrStreamCfg { max_items: 20, others: true, c0: true, xml_text: false, single_group: false };
    let mk = move |faults: bool| {
        move || {
            (
                gen::sgr_stream(cfg),
                0u8..=6,
                proptest::collection::vec(any::<u16>(), 1..10),
                if faults { prop_oneof![Just(Driver::WriteAll), Just(Driver::Fmt)].boxed() } else { prop_oneof![Just(Driver::Write), Just(Driver::WriteAll), Just(Driver::Vectored), Just(Driver::Fmt)].boxed() },
                if faults { proptest::collection::vec(arb_resp(), 1..20).boxed() } else { Just(vec![]).boxed() },
            )
                .prop_map(|((items, removed), mode, fracs, driver, script)| {
                    let bytes = gen::render(&items);
                    let cuts = cuts_for(&bytes, mode, &fracs);
                    (Case { hex: rt::hex(&bytes), cuts, driver, script, lits: vec![], colours: true }, removed)
                })
        }
    };
    let body = |(case, removed): &(Case, u64), acc: &mut Acc| {
        let _ = removed;
        acc.class(&format!("driver-{:?}", case.driver));
        match check(case) {
            Ok(nt) => Verdict::ok(nt.then(|| digest_str(&serde_json::to_string(case).unwrap()))),
            Err(m) => Verdict { result: Err(m), nontrivial: None },
        }
    };
    let tojson = |(case, _): &(Case, u64)| {
        let mut v = serde_json::to_value(case).unwrap();
        v["text"] = json!(esc(&rt::unhex(&case.hex)));
        v
    };
    rep.add("recording-console", false, "SGR streams x chunkings x {write, write_all, write_vectored, write!} against a console that accepts everything",
        prop_par("recording-console", args.seed, tier.pick(40_000, 1_000_000), mk(false), body, tojson));
    rep.add("faulty-console", false, "SGR streams x chunkings x {write_all, write!} against consoles answering short counts, zero, Interrupted, WouldBlock, Other",
        prop_par("faulty-console", args.seed, tier.pick(40_000, 1_000_000), mk(true), body, tojson));
    // runs of 64 KiB and more
    let mk_huge = move |faults: bool| {
        move || {
            (
                gen::sgr_stream(SgrStreamCfg { max_items: 8, ..cfg }),
                gen::huge_text(false),
                any::<u16>(),
                prop_oneof![Just(0u8), Just(1u8), Just(5u8)],
                proptest::collection::vec(any::<u16>(), 1..4),
                if faults { prop_oneof![Just(Driver::WriteAll), Just(Driver::Fmt)].boxed() } else { prop_oneof![Just(Driver::Write), Just(Driver::WriteAll), Just(Driver::Vectored), Just(Driver::Fmt)].boxed() },
                if faults { proptest::collection::vec(arb_resp(), 1..6).boxed() } else { Just(vec![]).boxed() },
            )
                .prop_map(|((mut items, removed), big, frac, mode, fracs, driver, script)| {
                    gen::insert_huge(&mut items, big, frac);
                    let bytes = gen::render(&items);
                    let cuts = cuts_for(&bytes, mode, &fracs);
                    (Case { hex: rt::hex(&bytes), cuts, driver, script, lits: vec![], colours: true }, removed)
                })
        }
    };
    let body_huge = |(case, _): &(Case, u64), acc: &mut Acc| {
        acc.class(&format!("driver-{:?}", case.driver));
        match check(case) {
            Ok(_) => Verdict::ok(Some(digest_str(&format!("{:?}{:?}{:?}{}", case.cuts, case.driver, case.script, case.hex.len())))),
            Err(m) => Verdict { result: Err(m), nontrivial: None },
        }
    };
    rep.add("huge-runs", false, "SGR streams (0..8 items) with one printable run of 64..200 KiB x {whole, a few cuts} x {write, write_all, write_vectored, write!} against a console that accepts everything",
        prop_par("huge-runs", args.seed, tier.pick(120, 6_000), mk_huge(false), body_huge, tojson));
    rep.add("huge-runs-faulty-console", false, "the same x {write_all, write!} against consoles answering short counts, zero, Interrupted, WouldBlock, Other",
        prop_par("huge-runs-faulty-console", args.seed, tier.pick(120, 6_000), mk_huge(true), body_huge, tojson));
    // formatted writes whose format string is a bare literal
    let mk_lit = |faults: bool| {
        move || {
            (
                proptest::collection::vec(0..vcore::lits::LITS.len(), 1..6),
                if faults { proptest::collection::vec(arb_resp(), 1..12).boxed() } else { Just(vec![]).boxed() },
            )
                .prop_map(|(lits, script)| {
                    let bytes: Vec<u8> = lits.iter().flat_map(|i| vcore::lits::LITS[*i].as_bytes().to_vec()).collect();
                    (Case { hex: rt::hex(&bytes), cuts: vec![], driver: Driver::Lit, script, lits, colours: true }, 0u64)
                })
        }
    };
    rep.add("literal-format-strings", false, "1..5 write!(stream, <literal>) calls over 35 escape-rich literals (format strings without arguments) against a console that accepts everything",
        prop_par("literal-format-strings", args.seed, tier.pick(10_000, 300_000), mk_lit(false), body, tojson));
    rep.add("literal-format-strings-faulty-console", false, "the same against consoles answering short counts, zero, Interrupted, WouldBlock, Other",
        prop_par("literal-format-strings-faulty-console", args.seed, tier.pick(20_000, 500_000), mk_lit(true), body, tojson));
    rep.exclude("F14: write() against a console that accepts a short count or fails (open known finding)", 1);
    // arbitrary escape streams: text + no-escape clauses only
    rep.add(
        "arbitrary-streams-text-only",
        false,
        "G-STREAM with all classes incl. malformed UTF-8: text handed over == reference visible text, no escape byte (colours not compared: sequences outside the SGR domain)",
        prop_par(
            "arbitrary-streams-text-only",
            args.seed,
            tier.pick(30_000, 600_000),
            || {
                (gen::stream(StreamCfg { max_items: 25, ..StreamCfg::ALL }), 0u8..=6, proptest::collection::vec(any::<u16>(), 1..10), prop_oneof![Just(Driver::Write), Just(Driver::WriteAll), Just(Driver::Vectored)]).prop_map(|(items, mode, fracs, driver)| {
                    let bytes = gen::render(&items);
                    let cuts = cuts_for(&bytes, mode, &fracs);
                    (Case { hex: rt::hex(&bytes), cuts, driver, script: vec![], lits: vec![], colours: false }, 0u64)
                })
            },
            body,
            tojson,
        ),
    );
    // exhaustive small: every sequence of <= 2 representative groups, fed whole through write
    let groups = ["", "0", "1", "4", "7", "31", "39", "44", "49", "91", "104", "38;5;1", "38;5;12", "38;5;200", "48;5;7", "48;5;16", "38;2;1;2;3", "48:2:1:2:3", "38:5:9", "58;5;1", "4:3", "38:1", "48:3:1:2:3", "38:2::1:2:3::0"];
    let mut acc = Acc::new();
    'outer: for a in groups {
        for b in groups {
            for drv in [Driver::Write, Driver::WriteAll, Driver::Fmt] {
                let bytes = format!("x\x1b[{a}my\x1b[{b}mz\x1b[{a};{b}mw\x1b[0mv").into_bytes();
                let case = Case { hex: rt::hex(&bytes), cuts: vec![], driver: drv, script: vec![], lits: vec![], colours: true };
                acc.eval();
                match rt::guarded(|| check(&case)) {
                    Ok(nt) => {
                        if nt {
                            acc.nontrivial_distinct();
                        }
                        acc.sample(|| json!({"text": esc(&bytes)}));
                    }
                    Err(m) => {
                        acc.fail("exhaustive-pairs", serde_json::to_value(&case).unwrap(), m);
                        break 'outer;
                    }
                }
            }
        }
    }
    rep.add("exhaustive-pairs", true, "24 x 24 pairs of representative attribute groups (separate and combined) x 3 drivers", vec![acc]);

    // write() against a console that fails on a later run of the same call
    {
        let mut acc = Acc::new();
        let texts: Vec<Vec<u8>> = vec![
            b"\x1b[31mred\x1b[32mgreen\x1b[0m".to_vec(),
            b"a\x1b[1;34mb\x1b[44mc\x1b[0md\n".to_vec(),
            "x\x1b[91m\u{e9}\x1b[38;5;3my\x1b[48;5;12mz".as_bytes().to_vec(),
            b"plain\x1b[4mstill default colours\x1b[35mmagenta".to_vec(),
            b"\x1b[32mone run only".to_vec(),
        ];
        'we: for t in &texts {
            for ok_calls in 0..4usize {
                for kind in [CResp::Interrupted, CResp::WouldBlock, CResp::Other] {
                    for vectored in [false, true] {
                        acc.eval();
                        match rt::guarded(|| check_write_error(t, ok_calls, kind, vectored)) {
                            Ok(nt) => {
                                if nt {
                                    acc.nontrivial_distinct();
                                    acc.sample(|| json!({"text": esc(t), "console_calls_before_the_failure": ok_calls, "kind": format!("{kind:?}")}));
                                }
                            }
                            Err(m) => {
                                acc.fail("write-errors-surface", json!({"hex": rt::hex(t), "ok_calls": ok_calls, "kind": kind, "vectored": vectored}), m);
                                break 'we;
                            }
                        }
                    }
                }
            }
        }
        rep.add("write-errors-surface", true, "5 multi-run buffers x console failing on its 1st..4th call with Interrupted / WouldBlock / Other x {write, write_vectored}: one call each; judged: the error reaches the caller, nothing is reported consumed that was not handed over (the stream's state after the failure - open findings F14 / F14b - is not)", vec![acc]);
    }

    // colour values above 255 name no colour: the run keeps its colours (value ignored) or falls
    // back to the default (value saturated, not a palette index 0-15) - never a palette colour
    // that the stream did not ask for
    let mut acc = Acc::new();
    let big = ["256", "257", "258", "265", "271", "272", "300", "511", "513", "1000", "4097", "65535", "99999"];
    'oor: for t in ["38", "48"] {
        for v in big {
            for spec in [format!("{t};5;{v}"), format!("{t}:5:{v}"), format!("{t};2;{v};0;0"), format!("{t};2;1;{v};2"), format!("{t}:2:3:4:{v}"), format!("{t}:2::{v}:{v}:{v}")] {
                for (pre, post) in [("", ""), ("\x1b[31;44m", ""), ("", ";1"), ("\x1b[92m", ";45")] {
                    for drv in [Driver::Write, Driver::WriteAll, Driver::Fmt] {
                        let bytes = format!("a{pre}b\x1b[{spec}{post}mc\x1b[0md").into_bytes();
                        let case = Case { hex: rt::hex(&bytes), cuts: vec![], driver: drv, script: vec![], lits: vec![], colours: true };
                        acc.eval();
                        let r = rt::guarded(|| sgr::with_out_of_range(sgr::OutOfRange::Ignore, || check(&case)))
                            .or_else(|m| rt::guarded(|| sgr::with_out_of_range(sgr::OutOfRange::Saturate, || check(&case))).map_err(|_| m));
                        match r {
                            Ok(_) => {
                                acc.nontrivial_distinct();
                                acc.sample(|| json!({"text": esc(&bytes)}));
                            }
                            Err(m) => {
                                acc.fail("out-of-range-colour-values", serde_json::to_value(&case).unwrap(), format!("(colour value above 255; against the 'changes nothing' reading) {m}"));
                                break 'oor;
                            }
                        }
                    }
                }
            }
        }
    }
    rep.add("out-of-range-colour-values", true, "38/48 extended colours with an index or component in 256..=65535 (6 spellings x 13 values x 4 contexts x 3 drivers); accepted: colours unchanged, or the saturated value (default)", vec![acc]);
}

fn replay(sub: &str, case_json: &Value) -> Result<(), String> {
    if sub == "write-errors-surface" {
        let kind: CResp = serde_json::from_value(case_json["kind"].clone()).map_err(|e| format!("bad case: {e}"))?;
        return check_write_error(&rt::unhex(case_json["hex"].as_str().unwrap_or("")), case_json["ok_calls"].as_u64().unwrap_or(0) as usize, kind, case_json["vectored"].as_bool().unwrap_or(false)).map(|_| ());
    }
    let case: Case = serde_json::from_value(case_json.clone()).map_err(|e| format!("bad case: {e}"))?;
    if sub == "out-of-range-colour-values" {
        return sgr::with_out_of_range(sgr::OutOfRange::Ignore, || check(&case))
            .or_else(|m| sgr::with_out_of_range(sgr::OutOfRange::Saturate, || check(&case)).map_err(|_| m))
            .map(|_| ());
    }
    check(&case).map(|_| ())
}

fn main() {
    rt::quiet_panics();
    let _ = ANSI_COLORS;
    rt::main("C18", RULE, run, &replay)
}
