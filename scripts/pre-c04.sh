#!/bin/bash
# builds the C04 binary a second time with the plain -O profile (no debug assertions)
V="$(cd "$(dirname "${BASH_SOURCE[0]}")/.." && pwd)"
cd "$V/harness" || exit 2
export CARGO_NET_OFFLINE=true CARGO_TARGET_DIR="$V/target"
cargo build --offline --profile plain -p checks --bin c04 >"$V/target/build-c04-plain.log" 2>&1 || { echo "plain build of c04 failed:"; tail -20 "$V/target/build-c04-plain.log"; exit 2; }
[ "${1:-}" = "thorough" ] && [ -x "$V/scripts/fuzz.sh" ] && { "$V/scripts/fuzz.sh" build robust || exit 2; }
exit 0
