#!/bin/bash
# usage: confirm_equiv.sh <ID> [worktree]  -- re-checks a property-preserving change written by a sub-agent:
#  patch == worktree diff; existing tests pass with it; its demo (which pins the NEW low-level
#  behaviour) passes with it and fails without it. Copies patch.diff, the demo and README.md to seeded/<ID>/.
id="$1"; wt="${2:-/tmp/mut/$id}"
V="$(cd "$(dirname "${BASH_SOURCE[0]}")/.." && pwd)"
cd "$wt" || exit 2
export CARGO_NET_OFFLINE=true CARGO_TARGET_DIR="$wt/target"
demo="$(git status --porcelain -uall | grep '^??' | awk '{print $2}' | grep -v '^MUTANT' | grep -v '^target' | head -1)"
[ -f "$demo" ] || { echo "no demo file found"; exit 2; }
crate="$(echo "$demo" | sed -E 's#^crates/([^/]+)/.*#\1#')"; name="$(basename "$demo" .rs)"
if ! git apply --check -R MUTANT/patch.diff 2>/dev/null; then echo "FAIL: worktree does not contain exactly the patch"; exit 1; fi
mkdir -p "$wt/target"
mv "$demo" "$wt/target/demo-aside.rs"
if cargo test --workspace --offline >"$wt/target/suite.log" 2>&1; then echo "existing suite with patch: PASS"; else echo "existing suite with patch: FAIL"; mv "$wt/target/demo-aside.rs" "$demo"; exit 1; fi
mv "$wt/target/demo-aside.rs" "$demo"
if cargo test --manifest-path "crates/$crate/Cargo.toml" --test "$name" --offline ${DEMO_FLAGS:-} >"$wt/target/demo-with.log" 2>&1; then echo "demo with patch: passes (good)"; else echo "demo with patch: FAILS (bad)"; exit 1; fi
git apply -R MUTANT/patch.diff
if cargo test --manifest-path "crates/$crate/Cargo.toml" --test "$name" --offline ${DEMO_FLAGS:-} >"$wt/target/demo-without.log" 2>&1; then echo "demo without patch: PASSES (bad: no observable difference)"; ok=0; else echo "demo without patch: fails (good: the difference is observable)"; ok=1; fi
git apply MUTANT/patch.diff
[ "$ok" = 1 ] || exit 1
mkdir -p "$V/seeded/$id"
cp MUTANT/patch.diff "$V/seeded/$id/patch.diff"; cp "$demo" "$V/seeded/$id/$(basename "$demo")"; cp MUTANT/README.md "$V/seeded/$id/README.md"
echo "$demo" > "$V/seeded/$id/demo_location.txt"
echo "CONFIRMED $id"
