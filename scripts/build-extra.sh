#!/bin/bash
# extra build steps of `./check --build-all`
V="$(cd "$(dirname "${BASH_SOURCE[0]}")/.." && pwd)"
"$V/scripts/pre-c20.sh" || exit 2
if [ -x "$V/scripts/pre-c04.sh" ]; then "$V/scripts/pre-c04.sh" || exit 2; fi
if [ -x "$V/scripts/pre-c19.sh" ]; then "$V/scripts/pre-c19.sh" || exit 2; fi
exit 0
