#!/usr/bin/env python3
"""Re-run every kept seeded change against the checks (regression test of the machinery itself).
  breaking changes (seeded/<id>/ without a trailing q): at least one of the checks named in
      meta.json caught_by (not marked silent / not applicable) must exit 1;
  property-preserving changes (seeded/<id>q/, <id>r/, <id>s/, <id>t/, <id>u/): all 20 quick checks must exit 0
      (a change whose meta.json has "expect_alarm": [ids] preserves its own property but breaks
      those: exactly they must report it).
Applies each patch to /repo, runs, restores /repo (never commits). Writes seeded/RESULTS.md.
usage: run_seeded.py [id ...]   (default: all)"""
import json, os, re, subprocess, sys
V = os.path.dirname(os.path.dirname(os.path.abspath(__file__)))
ALL = ["C%02d" % i for i in range(1, 21)]
ids = sys.argv[1:] or sorted(d for d in os.listdir(f"{V}/seeded") if os.path.isfile(f"{V}/seeded/{d}/patch.diff"))
rows, bad = [], 0
for i in ids:
    meta = json.load(open(f"{V}/seeded/{i}/meta.json"))
    if meta.get("skip"):
        rows.append((i, "-", "skipped: " + meta.get("kind", ""))); continue
    preserving = i[-1] in "qrstu"
    expect = meta.get("expect_alarm") or (["C15"] if i == "C04r" else None)
    if expect:
        # preserves its own property, breaks others (see its meta.json): exactly those must report it
        out = subprocess.run([f"{V}/scripts/try_mutant.sh", f"{V}/seeded/{i}/patch.diff"] + ALL, capture_output=True, text=True).stdout
        rcs = dict(re.findall(r"== (C\d\d) rc=(\d)", out))
        ok = all(rcs.get(c) == "1" for c in expect) and all(rcs.get(c) == "0" for c in ALL if c not in expect)
        rows.append((i, f"preserves {i[:3]} / breaks {' '.join(expect)}", f"{' '.join(expect)} report(s) it, all others silent" if ok else "UNEXPECTED: " + str(rcs)))
        bad += 0 if ok else 1
        print(i, rows[-1][2], flush=True)
        continue
    if preserving:
        checks = ALL
    else:
        cb = meta.get("caught_by", {})
        checks = [k for k, v in cb.items() if re.fullmatch(r"C\d\d", k) and not re.match(r"(silent|not applicable)", v)]
    if not checks:
        rows.append((i, "-", "not asserted (outside the property's domain)")); continue
    out = subprocess.run([f"{V}/scripts/try_mutant.sh", f"{V}/seeded/{i}/patch.diff"] + checks, capture_output=True, text=True).stdout
    rcs = dict(re.findall(r"== (C\d\d) rc=(\d)", out))
    if preserving:
        ok = all(rcs.get(c) == "0" for c in checks)
        verdict = "silent on all 20" if ok else "ALARM: " + " ".join(c for c in checks if rcs.get(c) != "0")
    else:
        hit = [c for c in checks if rcs.get(c) == "1"]
        ok = bool(hit)
        verdict = ("caught by " + " ".join(hit)) if ok else "MISSED (" + " ".join(f"{c}:rc={rcs.get(c)}" for c in checks) + ")"
    bad += 0 if ok else 1
    rows.append((i, "preserving" if preserving else "breaking", verdict))
    print(i, verdict, flush=True)
with open(f"{V}/seeded/RESULTS.md", "w") as f:
    f.write("# Kept seeded changes re-run against the committed checks (scripts/run_seeded.py)\n\n| id | kind | result |\n|---|---|---|\n")
    for r in rows:
        f.write("| %s | %s | %s |\n" % r)
sys.exit(1 if bad else 0)
