#!/bin/bash
# usage: try_mutant.sh <patch.diff> <ID> [<ID>...]   (tier via TIER=quick|thorough)
# Applies a seeded change to /repo, runs the given checks, always restores /repo.
V="$(cd "$(dirname "${BASH_SOURCE[0]}")/.." && pwd)"
patch="$1"; shift
export VERIF_WATCHDOG_S="${VERIF_WATCHDOG_S:-900}"
if [ -n "$(git -C /repo status --porcelain --untracked-files=no)" ]; then echo "/repo is not clean"; exit 3; fi
git -C /repo apply --check "$patch" || { echo "patch does not apply"; exit 3; }
git -C /repo apply "$patch"
trap 'git -C /repo checkout -- . ' EXIT
# rebuild the needed harness binaries of package `checks` in one parallel cargo invocation, so that
# the per-check builds below are no-ops
bins=""
for id in "$@"; do
  b="$(echo "$id" | tr 'A-Z' 'a-z')"
  case "$b" in c16|c18) ;; *) bins="$bins --bin $b" ;; esac
done
if [ -n "$bins" ]; then
  ( cd "$V/harness" && CARGO_NET_OFFLINE=true CARGO_TARGET_DIR="$V/target" cargo build --offline --profile release -p checks $bins >"$V/target/mut-build.log" 2>&1 )
fi
for id in "$@"; do
  "$V/check" "$id" "${TIER:-quick}" >"$V/target/mut-$id.log" 2>&1; rc=$?
  echo "== $id rc=$rc violations=$(grep -c '^VIOLATION' "$V/target/mut-$id.log")"
  grep -E "^\[$id\] [a-z0-9/_-]+: " "$V/target/mut-$id.log" | head -2 | cut -c1-400
done
