#!/bin/bash
# builds the C19 binary a second time against anstream with its `test` feature (package c19t)
V="$(cd "$(dirname "${BASH_SOURCE[0]}")/.." && pwd)"
cd "$V/harness" || exit 2
export CARGO_NET_OFFLINE=true CARGO_TARGET_DIR="$V/target"
cargo build --offline --profile release -p c19t >"$V/target/build-c19t.log" 2>&1 || { echo "build of c19t failed:"; tail -20 "$V/target/build-c19t.log"; exit 2; }
exit 0
