#!/bin/bash
# builds the C20 worker with the four anstyle-parse feature sets
set -u
V="$(cd "$(dirname "${BASH_SOURCE[0]}")/.." && pwd)"
cd "$V/harness-c20" || exit 2
export CARGO_NET_OFFLINE=true
mkdir -p "$V/target/c20"
build() { # name, feature args...
  local name="$1"; shift
  CARGO_TARGET_DIR="$V/target/c20/$name" cargo build --offline --release "$@" >"$V/target/build-c20-$name.log" 2>&1
}
build default --features utf8 & p1=$!
build core --features core & p2=$!
build core-utf8 --features core,utf8 & p3=$!
build none & p4=$!
rc=0
for pair in "default:$p1" "core:$p2" "core-utf8:$p3" "none:$p4"; do
  name="${pair%%:*}"; pid="${pair##*:}"
  if ! wait "$pid"; then
    echo "c20 worker build ($name) failed:"; tail -20 "$V/target/build-c20-$name.log"; rc=2
  fi
done
exit $rc
