#!/bin/bash
# libFuzzer campaigns (cargo-fuzz, nightly, AddressSanitizer) for the thorough tier.
#   fuzz.sh build <target>|all
#   fuzz.sh run <target> <runs> <seed> [empty]     bounded by -runs, never by time
# prints "ARTIFACT <file>" when libFuzzer saved a crashing input, "DONE ..." otherwise;
# exit 0 in both cases, exit 2 when the campaign could not run.
set -u
V="$(cd "$(dirname "${BASH_SOURCE[0]}")/.." && pwd)"
cd "$V/harness" || exit 2
export CARGO_NET_OFFLINE=true
TARGETS="strip parser chunk sgr robust"
cmd="${1:?build|run}"; target="${2:?target}"
case "$cmd" in
  build)
    [ "$target" = all ] && list="$TARGETS" || list="$target"
    for t in $list; do
      cargo +nightly fuzz build "$t" >"$V/target/build-fuzz-$t.log" 2>&1 || { echo "fuzz build of $t failed:"; tail -15 "$V/target/build-fuzz-$t.log"; exit 2; }
    done ;;
  run)
    runs="${3:-100000}"; seed="${4:-1}"; [ "$seed" = 0 ] && seed=4242
    mode="${5:-corpus}"
    work="$V/target/tmp/fuzz-$target-$$"; art="$V/target/fuzz-artifacts/$target/"
    rm -rf "$work"; mkdir -p "$work" "$art"
    [ "$mode" = corpus ] && cp "$V/corpus/$target/"* "$work/" 2>/dev/null
    cargo +nightly fuzz build "$target" >"$V/target/build-fuzz-$target.log" 2>&1 || { echo "fuzz build of $target failed"; tail -15 "$V/target/build-fuzz-$target.log"; rm -rf "$work"; exit 2; }
    before="$(ls "$art" 2>/dev/null | sort)"
    cargo +nightly fuzz run "$target" "$work" -a -- -runs="$runs" -seed="$seed" -len_control=0 -max_len=4096 -artifact_prefix="$art" -print_final_stats=1 >"$V/target/fuzz-$target.log" 2>&1
    rc=$?
    rm -rf "$work"
    new="$(comm -13 <(echo "$before") <(ls "$art" 2>/dev/null | sort) | grep -E '^(crash|oom|timeout|leak)-' | head -1)"
    execs="$(grep -E 'stat::number_of_executed_units' "$V/target/fuzz-$target.log" | awk '{print $2}')"
    if [ -n "$new" ]; then echo "ARTIFACT $art$new executed=${execs:-?}"; exit 0; fi
    if [ $rc -ne 0 ] && [ -z "${execs:-}" ]; then echo "fuzz run of $target failed (rc=$rc)"; tail -5 "$V/target/fuzz-$target.log"; exit 2; fi
    echo "DONE target=$target executed=${execs:-?} seed=$seed mode=$mode" ;;
esac
exit 0
