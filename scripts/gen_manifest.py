#!/usr/bin/env python3
"""Regenerates /verif/MANIFEST.json from the table below (single source of truth)."""
import json, os, sys
V = os.path.dirname(os.path.dirname(os.path.abspath(__file__)))

# id -> (technique, level text, level note, design ref)
CHECKS = {
 "C04": ("bounded-exhaustive + proptest (grammar streams, style-syntax words, arbitrary Unicode/bytes) through one decoder into every untrusted-input entry point, in two builds (debug-assertions+overflow-checks and plain -O); thorough adds the libFuzzer/AddressSanitizer target 'robust'",
         "Generated-input robustness search with the oracle 'no panic, sub-slice and UTF-8 validity of every returned piece/String, results in range', executed in a checked build (debug_assert!, overflow, the debug-only from_utf8 expect) and in a plain -O build (where the unsafe from_utf8_unchecked path is the one taken); the thorough tier runs a bounded coverage-guided campaign under AddressSanitizer.",
         "Trusted: catch_unwind (a panic = violation), R-UTF8 for validity of returned strings, ASan for memory errors (thorough only).",
         "DESIGN.md §2.6, §4-C04"),
 "C20": ("differential testing of four builds of the parser (feature sets utf8, core, core+utf8, none) on proptest-generated 7-bit grammar streams and boundary-length OSC payloads, against each other and the reference VT parser; truncation predicate for oversize payloads",
         "Differential generated-input search across configurations: the same inputs are parsed by four separately compiled worker binaries; within the documented limit all logs must be identical and equal to the reference model, beyond it the fixed-buffer builds must satisfy a truncation predicate (no panic, <= 1024 bytes, prefix fields, same terminator, other events identical).",
         "Trusted: the reference VT parser; cargo feature unification is avoided by building the worker package four times outside the harness workspace.",
         "DESIGN.md §4-C20"),
 "C19": ("generated cases run in child processes whose stdout/stderr are pipes; a gated Display fragment yields to a contender thread in the middle of a formatted write (harness-owned scheduling point) + free-running multi-thread stress; record-grammar oracle on the bytes read from the pipe; register window check for the global colour choice",
         "Generated-input search over (mode, stream, API, thread count, fragment count, gate position); the schedule-dependence is attacked by construction: the gate makes a second thread attempt a complete print while a formatted write is in progress, so a stream that does not hold its lock for the whole call interleaves deterministically. The oracle is the record grammar of the pipe contents (every record contiguous, complete, in per-thread order, payload stripped/verbatim as the mode requires).",
         "Trusted: OS pipes preserve write order; the 8 ms gate time-out can hide but never create a violation; only one scheduling point per gated print is owned, other interleavings come from stress; weaker memory orderings of the global register are not observable on x86 (stated limit).",
         "DESIGN.md §4-C19"),
 "C18": ("proptest SGR streams x chunkings x drivers against a recording console and scripted faulty consoles, on the working-tree source of the Windows-only stream included by path; oracle = reference SGR interpreter with the stated colour reduction; exhaustive pairs of attribute groups",
         "Model-based generated-input search: the calls received by a recording implementation of anstyle_wincon::WinconStream, flattened to (fg, bg, byte), must equal the reference terminal's per-character styles reduced to the 16-colour palette; no escape byte may be handed over; with scripted short counts/errors write_all and write! must hand everything over exactly once or fail with the injected kind.",
         "Trusted: shims of crate::stream::{AsLockedWrite, IsTerminal} (the module is not built by its own crate on this platform), R-VT/R-SGR. write() against short counts/errors is an open known finding (F14, F14b), excluded by construction and replayed as fixed inputs.",
         "DESIGN.md §4-C18, §5"),
 "C16": ("exhaustive colours per slot x covering effect sets, all effect sets x covering colours, proptest random styles, per adapter; value-level oracle (independently typed mapping through the target library's constructors) and render-level oracle (target library's own output interpreted by the reference SGR interpreter)",
         "Generated-input search with two oracles per adapter: equality with an independently constructed target value, and a round trip through the target library's own renderer into the reference SGR interpreter, compared with the input projected on an explicit table of what the target can express. All 16+256 colours and a 9^3 RGB lattice per slot and all 4096 effect sets are enumerated.",
         "Trusted: the five third-party libraries' constructors/renderers (render layer only applied where the library renders the harness-built value as the projection predicts; owo-colors 4.0.0's missing ';' is documented and those cases are decided at value level), the expressibility table in the check.",
         "DESIGN.md §4-C16"),
 "C17": ("exhaustive 17x17 colour pairs x data x inner-writer plans (every data prefix, failure at each of the up to four inner writes) + proptest generated data/plans; framing oracle through the reference SGR interpreter and strip",
         "Fault enumeration over a finite plan space (accept all / every prefix of the data / fail at inner write k with three error kinds) for all colour pairs, plus random escape-rich and long data. The output must decompose into SGR-only prefix setting exactly (fg,bg), the accepted data prefix verbatim, and an SGR-only suffix restoring the default state.",
         "Trusted: reference SGR interpreter; std's write_all retry semantics (an interrupted code/reset write is retried by write! and is not expected to surface).",
         "DESIGN.md §4-C17"),
 "C14": ("proptest grammar documents x palettes x default colours x background; independent strict XML parser + expat second opinion; text/line/height oracle from the reference VT parser; per-character presentation resolved through the style sheet vs the reference SGR interpreter",
         "Generated-input search with a validity-and-content oracle: every rendered document must parse with an XML 1.0 parser written for the check (and with expat), its foreground rows must spell the reference parser's visible text line by line, every class must be defined, and the CSS declarations reached through the classes must equal the reference terminal style (invert applied against the configured defaults, RGB through the published palettes / xterm formula).",
         "Trusted: XML/CSS readers in vcore/src/xml.rs, expat, R-VT/R-SGR, published palettes. Tolerated and documented: a literal CR is compared after XML end-of-line normalisation; the underline kind is read from rules without a colour; background-row width is not checked.",
         "DESIGN.md §4-C14"),
 "C15": ("exhaustive single segments (17x17 colours x 192 effect subsets) + proptest segment lists over a roff-special alphabet; oracle = a roff reader that undoes the escapes and rejects any request other than the colour requests",
         "Generated-input search inside the domain the property states, with a round-trip oracle: a small roff reader recovers (colours, font, text) per block from to_roff() and render() output and compares with the generated segments; any other request line or escape in the output is a violation, so text that manages to introduce a request is caught.",
         "Trusted: the roff reader in the check. Three documented limitations of the cansi-based segmentation (F12, F13, F15) are open known findings replayed as fixed inputs; the generator stays inside the stated domain.",
         "DESIGN.md §4-C15, §5"),
 "C08": ("stateful/model-based proptest: generated operation sequences (write, write_all, write_vectored, write!, flush) x 4 colour choices x 4 sink kinds x 2 constructors against a StripStream / identity model",
         "Model-based generated-input search over call histories: after every history the inner writer must hold strip(consumed) (Never) or the consumed bytes (AlwaysAnsi/Always), return values must equal a plain StripStream's, current_choice/into_inner/to_adapted_string must agree with the mode in force; Auto is exercised under two pinned environments.",
         "Trusted: StripStream<Vec<u8>> and strip_bytes as the model of 'what the strip stream would deliver' (their own correctness is C01/C03/C06).",
         "DESIGN.md §4-C08"),
 "C09": ("exhaustive enumeration of the 6144-configuration cross product in a single-threaded process (pty master as the terminal stream) + proptest random environment values; decision-list oracle",
         "The quantified domain is finite and is enumerated completely (global x 5 variables x terminal/non-terminal); the oracle is the decision list of the statement as a pure function. Random byte-string values per variable test the 'non-empty' / 'equals 0' / 'equals dumb' predicates beyond the grid values.",
         "Trusted: /dev/ptmx behaving as a terminal (checked at run time; without it the check exits 2, inconclusive), the decision list transcribed from the statement.",
         "DESIGN.md §4-C09"),
 "C10": ("brute-force nearest-colour oracle over a boundary set (lattice, candidates +-1, midpoints) and random values in quick, over all 2^24 RGB values in thorough; exhaustive tables",
         "Exhaustive in the thorough tier (every RGB value x 240-colour target and 8 palettes incl. degenerate ones); quick tier covers every candidate neighbourhood and decision boundary midpoint. Oracle is an independent i64 brute-force search with lowest-index tie-breaking and a palette computed by formula.",
         "Trusted: the metric's weights are taken from the crate as specification (the statement says 'red-mean weighted distance' without constants); published VGA/Windows-10 tables.",
         "DESIGN.md §3.4, §4-C10"),
 "C11": ("bounded-exhaustive vocabulary and '#'-word enumeration + proptest grammar, single-edit mutations and arbitrary Unicode against a reference parser; print/parse round trip",
         "Differential generated-input search against a reference parser written from the syntax in the statement (accept/reject, denoted style, error kind and word), plus a round-trip through a printer for all expressible styles. Exhaustive for all 1-2 word descriptions over a 66-word vocabulary and all 3- and 6-character '#' words over a 12-symbol alphabet.",
         "Trusted: reference parser in the check. Undetermined inputs (explicit '+', U+212A) are excluded and counted; '#rgb' is read as three digit values as the crate's pinned tests state.",
         "DESIGN.md §4-C11"),
 "C12": ("exhaustive lists of <= 3 codes over 0..=110 and extended-colour forms in every position + proptest well-formed/malformed lists against a reference SGR fold",
         "Differential generated-input search against a reference left-to-right fold of the SGR table in the statement; exhaustive for all lists of up to three codes (1.38 million) and for the extended-colour forms in all positions of short lists.",
         "Trusted: reference fold in the check. Excluded as undetermined: explicit '+', and 38/48/58 followed by something that is neither a well-formed nor an end-of-list-truncated extended colour.",
         "DESIGN.md §4-C12"),
 "C05": ("exhaustive effect sets and colours per slot + proptest random styles; round trip through the reference SGR interpreter; Display == io::Write path; format-spec grid metamorphic relation",
         "Generated-input search over style values with a round-trip oracle through an independent SGR interpreter and a strip/parse purity oracle; every spec of a fixed grid of width/fill/align/precision/alternate flags must reproduce the plain rendering byte for byte. All 4096 effect sets and all palette/indexed colours and RGB component values per slot are enumerated.",
         "Trusted: reference SGR interpreter and VT parser (vcore), the crate's own strip_str for the 'strips to nothing' clause (cross-checked by the reference parser seeing only CSI m events).",
         "DESIGN.md §4-C05"),
 "C06": ("model-based testing of io::Write call histories: bounded-exhaustive (input x inner-writer script x driver) and proptest-generated histories against a scripted recording inner writer",
         "Fault-script enumeration: every script of accept sizes {0,1,2,3,all} and errors {Interrupted, WouldBlock, Other} up to depth 3 (4 thorough) against 156 (1884) escape-rich inputs and 11 driver configurations, with an invariant checked after every call (inner bytes == strip(consumed prefix)), plus random long histories. Shrinks to a minimal history.",
         "Trusted: the crate's own one-shot strip_bytes as the definition of 'stripped form' (its correctness is C01), std's write_all/write_fmt retry semantics, the scripted writer in vcore/src/fault.rs.",
         "DESIGN.md §3.8, §4-C06"),
 "C13": ("exhaustive 4096x4096 effect-set pairs against a u16 bit-set model, exhaustive colour laws, proptest setter/operator sequences against a record model",
         "Exhaustive model comparison for the Effects algebra (all ordered pairs, all unary laws, iteration order, Debug text) and for the 16/256 colour conversions; stateful random operation sequences for Style against a record model.",
         "Trusted: the bit-set/record models in the check (a dozen lines each).",
         "DESIGN.md §4-C13"),
 "C07": ("exhaustive SGR sequences of <= 3 attribute groups + proptest grammar streams (whole and chunked) against a reference SGR interpreter over the reference VT parser; metamorphic combined == separate and delete-non-SGR relations; libFuzzer target 'sgr' in thorough",
         "Generated-input search with two independent oracles: a reference terminal model (R-SGR over R-VT, own style type) compared per character, and two metamorphic relations that involve only the extractor (combined vs separate sequences; deleting non-SGR sequences). Exhaustive over all sequences of up to three groups from a 57-group representative set, from two start states.",
         "Trusted: reference SGR interpreter harness/vcore/src/sgr.rs (ECMA-48 / T.416 / xterm / kitty rules as listed in DESIGN.md §3.3). Domain restrictions: blink, 22-29, 59, values > 255 and truncated extended colours are not generated.",
         "DESIGN.md §3.3, §3.6, §4-C07"),
 "C01": ("bounded-exhaustive byte/character strings + proptest grammar streams against the reference VT parser's visible text (exact oracle), safety invariants on every piece, agreement of all entry points; libFuzzer target 'strip' in thorough",
         "Generated-input search with an explicit oracle: every string up to a bounded length over one representative per byte class, plus seeded escape-rich grammar streams up to several KiB, compared with the visible text computed by an independent reference parser (valid UTF-8) and with safety invariants (sub-slice pieces, valid UTF-8 pieces, no control byte in the output) on all inputs. Agreement on everything explored; no claim beyond the bound.",
         "Trusted: reference parser/UTF-8 decoder in harness/vcore/src/vt.rs, proptest. For malformed UTF-8 only the safety clauses and cross-entry-point agreement are asserted (the statement does not define visible text there).",
         "DESIGN.md §3, §4-C01"),
 "C03": ("all 2^(n-1) partitions of bounded-exhaustive and short generated inputs + proptest-generated partitions of long grammar streams; differential oracle chunked == one-shot for StripStr, StripBytes, StripStream (write/write_all) and WinconBytes",
         "Metamorphic/differential generated-input search: the same code run on the whole input is the oracle for the code run on every partition. Exhaustive over partitions for all strings up to length 4-5 over a class alphabet; sampled partitions (incl. all-single-byte and every sequence-interior cut) for long streams.",
         "Trusted: the one-shot run of the code under test as oracle (its correctness is C01/C07's business), reference machine only to classify cuts as non-trivial.",
         "DESIGN.md §4-C03"),
 "C02": ("exhaustive 16x256 transition table + bounded-exhaustive byte strings + proptest grammar streams, differential against an independent reference VT500 parser; CAN/SUB metamorphic relation; clone relation; libFuzzer target 'parser' in thorough",
         "Generated-input search against an explicit reference model (R-VT, written from Williams' diagram, shares no code or table with the crate). The transition function is compared exhaustively (4096 pairs); event streams are compared on every string up to a bounded length over class representatives and on seeded grammar streams with boundary-biased parameter/intermediate/OSC-field counts. Establishes agreement on everything explored, not absence of bugs beyond the bound.",
         "Trusted: the reference parser in harness/vcore/src/vt.rs (for bytes >= 0x80 transcribed from pinned behaviour, since the docs only say 'some 8-bit codes are still supported'), proptest, rustc.",
         "DESIGN.md §3.1, §4-C02"),
}

CATEGORY = {"C06": "fault_enumeration", "C17": "fault_enumeration"}

def entry(pid):
    tech, text, note, ref = CHECKS[pid]
    return {
        "property_id": pid,
        "quick_cmd": f"./check {pid} quick",
        "thorough_cmd": f"./check {pid} thorough",
        "evidence_file": f"evidence/{pid}.json",
        "replay_cmd_template": f"./check {pid} --replay {{path}}",
        "engine": "harness",
        "level_claimed": {"category": CATEGORY.get(pid, "exploration"), "text": text, "design_ref": ref},
        "level_note": note,
        "technique": tech,
    }

props = [json.loads(l)["id"] for l in open(os.path.join(V, "properties.jsonl"))]
manifest = {
    "version": 1,
    "setup_cmd": "./check --build-all",
    "hooks": {
        "guard": "anstyle_verif",
        "enable": "no hooks are needed: every check builds /repo's crates unmodified as path dependencies (RUSTFLAGS --cfg anstyle_verif is reserved and unused)",
        "baseline_off_cmd": "cd /repo && cargo test --workspace --no-fail-fast --offline",
        "source_commits": [],
        "add_only": True,
    },
    "engines": [
        {"name": "fuzz", "path": "harness/fuzz", "serves_properties": ["C01", "C02", "C03", "C04", "C07"],
         "kind_free_text": "cargo-fuzz crate (libFuzzer + AddressSanitizer, nightly): targets strip, parser, chunk, sgr, robust with the semantic oracle of the corresponding check inside the target; run by the thorough tier through scripts/fuzz.sh with -runs/-seed, committed seed corpus in corpus/"},
        {"name": "harness", "path": "harness", "serves_properties": sorted(CHECKS),
         "kind_free_text": "cargo workspace: vcore (runner, reference VT parser / SGR interpreter / generators, evidence, replay) + one proptest/bounded-exhaustive binary per property, path-depending on /repo/crates/*"},
    ],
    "checks": [entry(p) for p in props if p in CHECKS],
    "not_applicable": [
        {"property_id": p, "reason": "check not built yet (work in progress; see DESIGN.md §4 for its design)"}
        for p in props if p not in CHECKS
    ],
    "notes": "All checks: exit 0 held / 1 VIOLATION / 2 inconclusive. VERIF_SEED selects the proptest seed; identical seed => identical work. See DESIGN.md.",
}
json.dump(manifest, open(os.path.join(V, "MANIFEST.json"), "w"), indent=1)
print("wrote MANIFEST.json with", len(manifest["checks"]), "checks,", len(manifest["not_applicable"]), "not applicable")
