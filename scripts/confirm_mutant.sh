#!/bin/bash
# usage: confirm_mutant.sh <ID> [worktree]  -- re-checks a sub-agent's seeded change in its scratch worktree:
#  patch == worktree diff; existing tests pass with it; demo fails with it and passes without it.
# On success copies patch.diff, the demo and README.md to /verif/seeded/<ID>/ (meta.json is written by hand).
id="$1"; wt="${2:-/tmp/mut/$id}"
V="$(cd "$(dirname "${BASH_SOURCE[0]}")/.." && pwd)"
cd "$wt" || exit 2
export CARGO_NET_OFFLINE=true CARGO_TARGET_DIR="$wt/target"
demo="$(git status --porcelain -uall | grep '^??' | awk '{print $2}' | grep -v '^MUTANT' | grep -v '^target' | head -1)"
[ -f "$demo" ] || { echo "no demo file found (untracked: $demo)"; exit 2; }
crate="$(echo "$demo" | sed -E 's#^crates/([^/]+)/.*#\1#')"; name="$(basename "$demo" .rs)"
echo "demo=$demo crate=$crate test=$name"
git diff > "$wt/target/current.diff" 2>/dev/null || git diff > /tmp/current-$id.diff
if ! git apply --check -R MUTANT/patch.diff 2>/dev/null; then echo "FAIL: worktree does not contain exactly the patch"; exit 1; fi
mv "$demo" "$wt/target/demo-aside.rs"
if cargo test --workspace --offline >"$wt/target/suite.log" 2>&1; then echo "existing suite with patch: PASS"; else echo "existing suite with patch: FAIL"; grep -E "FAILED|failed" "$wt/target/suite.log" | head; mv "$wt/target/demo-aside.rs" "$demo"; exit 1; fi
mv "$wt/target/demo-aside.rs" "$demo"
if cargo test --manifest-path "crates/$crate/Cargo.toml" --test "$name" --offline ${DEMO_FLAGS:-} >"$wt/target/demo-with.log" 2>&1; then echo "demo with patch: PASSES (bad)"; exit 1; else echo "demo with patch: fails (good)"; fi
git apply -R MUTANT/patch.diff
if cargo test --manifest-path "crates/$crate/Cargo.toml" --test "$name" --offline ${DEMO_FLAGS:-} >"$wt/target/demo-without.log" 2>&1; then echo "demo without patch: passes (good)"; ok=1; else echo "demo without patch: FAILS (bad)"; ok=0; fi
git apply MUTANT/patch.diff
[ "$ok" = 1 ] || exit 1
mkdir -p "$V/seeded/$id"
cp MUTANT/patch.diff "$V/seeded/$id/patch.diff"; cp "$demo" "$V/seeded/$id/$(basename "$demo")"; cp MUTANT/README.md "$V/seeded/$id/README.md"
echo "$demo" > "$V/seeded/$id/demo_location.txt"
echo "CONFIRMED $id"
