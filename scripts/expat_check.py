#!/usr/bin/env python3
"""Second-opinion XML well-formedness check with expat.
Input file: records '<decimal length>\n<bytes>' ... ; prints JSON {"checked": n, "failures": [[index, message], ...]}"""
import json, sys
import xml.parsers.expat as expat

def main(path):
    data = open(path, 'rb').read()
    pos = 0
    idx = 0
    failures = []
    while pos < len(data):
        nl = data.index(b'\n', pos)
        n = int(data[pos:nl])
        doc = data[nl + 1: nl + 1 + n]
        pos = nl + 1 + n
        p = expat.ParserCreate('utf-8')
        try:
            p.Parse(doc, True)
        except expat.ExpatError as e:
            failures.append([idx, str(e)])
        idx += 1
    print(json.dumps({"checked": idx, "failures": failures[:20]}))

if __name__ == '__main__':
    main(sys.argv[1])
