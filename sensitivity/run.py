#!/usr/bin/env python3
"""Self-validation (DESIGN.md §2.7 a): applies small hand-written mutations to /repo one at
a time, runs the checks that must notice, restores /repo, and writes RESULTS.md.
Usage: sensitivity/run.py [name-substring]   (needs a clean /repo; not part of any registered check)"""
import subprocess, sys, json, os, time
V = os.path.dirname(os.path.dirname(os.path.abspath(__file__)))
R = "/repo/crates/"
M = [
 # (name, file, old, new, checks expected to catch)
 ("C01-del-printable", "anstream/src/adapter/strip.rs", "(action == Action::Print && byte != DEL)", "(action == Action::Print)", ["C01"]),
 ("C01-all-executes-printable", "anstream/src/adapter/strip.rs", "|| (action == Action::Execute && byte.is_ascii_whitespace())", "|| (action == Action::Execute)", ["C01"]),
 ("C01-narrow-continuation", "anstream/src/adapter/strip.rs", "matches!(b, 0x80..=0xbf)", "matches!(b, 0x80..=0xbe)", ["C01", "C04"]),
 ("C02-wrapping-mul", "anstyle-parse/src/lib.rs", "self.param = self.param.saturating_mul(10);", "self.param = self.param.wrapping_mul(10);", ["C02"]),
 ("C02-max-intermediates-3", "anstyle-parse/src/lib.rs", "const MAX_INTERMEDIATES: usize = 2;", "const MAX_INTERMEDIATES: usize = 3;", ["C02"]),
 ("C02-bell-flag-inverted", "anstyle-parse/src/lib.rs", "performer.osc_dispatch(&*params, byte == 0x07);", "performer.osc_dispatch(&*params, byte != 0x07);", ["C02"]),
 ("C02-param-not-cleared", "anstyle-parse/src/lib.rs", "                self.ignoring = false;\n                self.param = 0;\n", "                self.ignoring = false;\n", ["C02"]),
 ("C02-osc-params-15", "anstyle-parse/src/lib.rs", "const MAX_OSC_PARAMS: usize = 16;", "const MAX_OSC_PARAMS: usize = 15;", ["C02"]),
 ("C02-subparam-index", "anstyle-parse/src/params.rs", "        self.current_subparams += 1;\n        self.len += 1;", "        self.current_subparams += 1;\n        self.len += 1;\n        if self.len == 7 { self.current_subparams = 0; }", ["C02"]),
 ("C03-stripbytes-forgets-utf8", "anstream/src/adapter/strip.rs", "        StripBytesIter {\n            bytes,\n            state: &mut self.state,", "        self.utf8parser = Default::default();\n        StripBytesIter {\n            bytes,\n            state: &mut self.state,", ["C03"]),
 ("C03-extractor-forgets-style", "anstream/src/adapter/wincon.rs", "        self.capture.reset();\n        self.capture.printable.reserve(bytes.len());", "        self.capture.reset();\n        if bytes.len() == 3 { self.capture.style = Default::default(); }\n        self.capture.printable.reserve(bytes.len());", ["C03"]),
 ("C04-no-is-full-guard", "anstyle-parse/src/lib.rs", "            Action::Param => {\n                if self.params.is_full() {\n                    self.ignoring = true;\n                    return;\n                }\n", "            Action::Param => {\n", ["C04", "C02"]),
 ("C05-bg-underline-swapped", "anstyle/src/color.rs", None, None, ["C05"]),
 ("C05-reset-unconditional", "anstyle/src/style.rs", "    pub fn write_reset_to(self, write: &mut dyn std::io::Write) -> std::io::Result<()> {\n        if self != Self::new() {", "    pub fn write_reset_to(self, write: &mut dyn std::io::Write) -> std::io::Result<()> {\n        if true {", ["C05"]),
 ("C06-short-write-claims-all", "anstream/src/strip.rs", "            state.strip_next(consumed).last();\n            return Ok(offset);", "            state.strip_next(consumed).last();\n            return Ok(if written == 0 { offset } else { buf.len() });", ["C06"]),
 ("C06-state-not-restored", "anstream/src/strip.rs", "                // Nothing was consumed, allow the caller to retry with the same `buf`\n                *state = initial_state;\n", "", ["C06"]),
 ("C06-fmt-error-lost", "anstream/src/fmt.rs", "                if self.error.is_err() {\n                    self.error\n                } else {", "                if false {\n                    self.error\n                } else {", ["C06"]),
 ("C07-bright-bg-off-by-one", "anstream/src/adapter/wincon.rs", "let color = to_ansi_color(value - 100)", "let color = to_ansi_color((value - 100 + 1) % 8)", ["C07", "C18"]),
 ("C07-48-sets-fg", "anstream/src/adapter/wincon.rs", "                    (State::Normal, 48) => {\n                        color_target = ColorTarget::Bg;", "                    (State::Normal, 48) => {\n                        color_target = ColorTarget::Fg;", ["C07", "C14"]),
 ("C07-39-ignored", "anstream/src/adapter/wincon.rs", "                    (State::Normal, 39) => {\n                        style = style.fg_color(None);\n                        break;", "                    (State::Normal, 39) => {\n                        break;", ["C07"]),
 ("C08-never-passes-through", "anstream/src/auto.rs", "        let inner = StreamInner::Strip(StripStream::new(raw));\n        AutoStream { inner }", "        let inner = StreamInner::PassThrough(raw);\n        AutoStream { inner }", ["C08"]),
 ("C08-vectored-last-buffer", "anstream/src/strip.rs", "            .iter()\n            .find(|b| !b.is_empty())", "            .iter()\n            .rev()\n            .find(|b| !b.is_empty())", ["C08", "C06"]),
 ("C09-precedence-swapped", "anstream/src/auto.rs", "            if anstyle_query::no_color() {\n                ColorChoice::Never\n            } else if anstyle_query::clicolor_force() {\n                ColorChoice::Always", "            if anstyle_query::clicolor_force() {\n                ColorChoice::Always\n            } else if anstyle_query::no_color() {\n                ColorChoice::Never", ["C09"]),
 ("C09-ci-needs-value", "anstyle-query/src/lib.rs", 'std::env::var_os("CI").is_some()', 'non_empty(std::env::var_os("CI").as_deref())', ["C09"]),
 ("C09-term-and", "anstream/src/auto.rs", "                && (anstyle_query::term_supports_color()\n                    || clicolor_enabled", "                && (anstyle_query::term_supports_color()\n                    && clicolor_enabled", ["C09"]),
 ("C10-tie-last-wins", "anstyle-lossy/src/palette.rs", "            if distance < best_distance {", "            if distance <= best_distance {", ["C10"]),
 ("C10-xterm-start-17", "anstyle-lossy/src/lib.rs", "    let mut best_index = 16;", "    let mut best_index = 17;", ["C10"]),
 ("C11-third-colour-accepted", "anstyle-git/src/lib.rs", "                        1 => {\n                            style = style.bg_color(color);\n                            num_colors += 1;\n                        }", "                        1 | 2 => {\n                            style = style.bg_color(color);\n                            num_colors += 1;\n                        }", ["C11"]),
 ("C11-late-negation-loses", "anstyle-git/src/lib.rs", '            "nodim" | "no-dim" => {\n                effects = effects.remove(anstyle::Effects::DIMMED);', '            "nodim" | "no-dim" => {\n                effects = effects.remove(anstyle::Effects::BOLD);', ["C11"]),
 ("C12-24-removes-bold", "anstyle-ls/src/lib.rs", "            24 => {\n                effects = effects.remove(anstyle::Effects::UNDERLINE);", "            24 => {\n                effects = effects.remove(anstyle::Effects::BOLD);", ["C12"]),
 ("C12-48-writes-fg", "anstyle-ls/src/lib.rs", "                (Some(5), Some(color)) => bg_color = Some(anstyle::Ansi256Color(color).into()),", "                (Some(5), Some(color)) => fg_color = Some(anstyle::Ansi256Color(color).into()),", ["C12"]),
 ("C13-contains-any", "anstyle/src/effect.rs", None, None, ["C13"]),
 ("C14-text-not-escaped", "anstyle-svg/src/lib.rs", "    let fragment = html_escape::encode_text(fragment);\n    // A literal carriage return", "    let fragment = std::borrow::Cow::Borrowed(fragment);\n    // A literal carriage return", ["C14"]),
 ("C14-height-off-by-one", "anstyle-svg/src/lib.rs", "let height = styled_lines.len() * line_height + self.padding_px * 2;", "let height = (styled_lines.len() + 1) * line_height + self.padding_px * 2;", ["C14"]),
 ("C14-invert-fg-only", "anstyle-svg/src/lib.rs", "                    .bg_color(Some(style.get_fg_color().unwrap_or(self.fg_color)))\n", "", ["C14"]),
 ("C15-colours-swapped", "anstyle-roff/src/lib.rs", '    pub(crate) const BACKGROUND: &str = "fcolor";', '    pub(crate) const BACKGROUND: &str = "gcolor_";', ["C15"]),
 ("C15-italic-wins", "anstyle-roff/src/lib.rs", "    if effects.contains(anstyle::Effects::BOLD) | has_bright_fg(&styled.style) {\n        doc.text(vec![bold(styled.text)]);\n    } else if effects.contains(anstyle::Effects::ITALIC) {\n        doc.text(vec![italic(styled.text)]);", "    if effects.contains(anstyle::Effects::ITALIC) {\n        doc.text(vec![italic(styled.text)]);\n    } else if effects.contains(anstyle::Effects::BOLD) | has_bright_fg(&styled.style) {\n        doc.text(vec![bold(styled.text)]);", ["C15"]),
 ("C16-yansi-table-entry", "anstyle-yansi/src/lib.rs", "anstyle::AnsiColor::BrightRed => yansi::Color::BrightRed,", "anstyle::AnsiColor::BrightRed => yansi::Color::Red,", ["C16"]),
 ("C16-owo-effect-dropped", "anstyle-owo-colors/src/lib.rs", "    if effects.contains(anstyle::Effects::HIDDEN) {\n        style = style.hidden();\n    }", "", ["C16"]),
 ("C17-reset-omitted", "anstyle-wincon/src/ansi.rs", '    if non_default {\n        write!(stream, "{}", anstyle::Reset.render())?;\n    }', "", ["C17"]),
 ("C17-non-default-and", "anstyle-wincon/src/ansi.rs", "let non_default = fg.is_some() || bg.is_some();", "let non_default = fg.is_some() && bg.is_some();", ["C17"]),
 ("C18-rgb-becomes-colour", "anstream/src/wincon.rs", "        anstyle::Color::Rgb(_) => None,", "        anstyle::Color::Rgb(_) => Some(anstyle::AnsiColor::White),", ["C18"]),
 ("C18-write-all-no-loop", "anstream/src/wincon.rs", "                Ok(n) => buf = &buf[n..],", "                Ok(_) => buf = &buf[buf.len()..],", ["C18"]),
 ("C19-strip-write-fmt-per-fragment", "anstream/src/strip.rs", "    #[inline]\n    fn write_fmt(&mut self, args: std::fmt::Arguments<'_>) -> std::io::Result<()> {\n        write_fmt(&mut self.raw.as_locked_write(), &mut self.state, args)\n    }\n", "", ["C19"]),
 ("C20-osc-raw-1023", "anstyle-parse/src/lib.rs", "const MAX_OSC_RAW: usize = 1024;", "const MAX_OSC_RAW: usize = 1023;", ["C20"]),
 ("C20-no-full-check", "anstyle-parse/src/lib.rs", "                    if self.osc_raw.is_full() && byte != b';' {\n                        return;\n                    }", "", ["C20"]),
]
SPECIAL = {
 "C05-bg-underline-swapped": ("anstyle/src/color.rs", lambda s: s),  # filled below
}

def sh(cmd, **kw):
    env = dict(os.environ, VERIF_WATCHDOG_S=os.environ.get("VERIF_WATCHDOG_S", "600"))
    return subprocess.run(cmd, shell=True, capture_output=True, text=True, env=env, **kw)

def main():
    sel = sys.argv[1] if len(sys.argv) > 1 else ""
    if sh("git -C /repo status --porcelain --untracked-files=no").stdout.strip():
        print("/repo is not clean"); sys.exit(3)
    rows = []
    for name, f, old, new, checks in M:
        if sel and sel not in name: continue
        path = R + f
        src = open(path).read()
        if old is None:
            # ad-hoc mutations that need a search in the file
            if name == "C05-bg-underline-swapped":
                i = src.find('"\\x1B[48;')
                old = src[i:i+8] if i >= 0 else None
                new = '"\\x1B[58;'
            elif name == "C13-contains-any":
                old = "(other.0 & self.0) == other.0"
                new = "(other.0 & self.0) != 0"
        if old is None or src.count(old) < 1:
            rows.append((name, checks, "NOT-APPLIED", "")); print(name, "pattern not found"); continue
        open(path, "w").write(src.replace(old, new, 1))
        try:
            verdicts = []
            for c in checks:
                t0 = time.time()
                r = sh(f"{V}/check {c} quick")
                caught = r.returncode == 1 and "VIOLATION" in r.stdout
                first = next((l for l in (r.stderr + r.stdout).splitlines() if l.startswith(f"[{c}] ") and ": " in l and "evals=" not in l), "")
                verdicts.append(f"{c}:{'caught' if caught else ('inconclusive' if r.returncode == 2 else 'MISSED')} ({time.time()-t0:.0f}s)")
                detail = first[:160]
            rows.append((name, checks, " ".join(verdicts), detail))
            print(name, " ".join(verdicts), flush=True)
        finally:
            sh("git -C /repo checkout -- .")
    with open(os.path.join(V, "sensitivity", "RESULTS.md"), "a" if sel else "w") as out:
        if not sel:
            out.write("# Hand-written sensitivity mutations (one at a time, quick tier)\n\n| mutation | verdict | first message |\n|---|---|---|\n")
        for name, checks, v, d in rows:
            out.write(f"| {name} | {v} | {d.replace('|', '/')} |\n")

if __name__ == "__main__" and not (len(sys.argv) > 1 and sys.argv[1] == "--equivalent"):
    main()

# ---------------------------------------------------------------------------
# Semantics-preserving changes (DESIGN.md §2.7 b): the checks must stay silent.
# Run with:  sensitivity/run.py --equivalent
EQ = [
 ("EQ-svg-class-renamed", "anstyle-svg/src/lib.rs", [('r#"    .bold {{ font-weight: bold; }}"#', 'r#"    .b0ld {{ font-weight: bold; }}"#'), ('classes.push("bold");', 'classes.push("b0ld");')], ["C14"]),
 ("EQ-svg-colour-class-renamed", "anstyle-svg/src/lib.rs", [('format!("{prefix}-ansi256-{index:03}")', 'format!("{prefix}-x256-{index}")')], ["C14"]),
 ("EQ-style-colours-before-effects", "anstyle/src/style.rs", [("        self.effects.render().fmt(f)?;\n\n        if let Some(fg) = self.fg {\n            fg.render_fg().fmt(f)?;\n        }\n", "        if let Some(fg) = self.fg {\n            fg.render_fg().fmt(f)?;\n        }\n        self.effects.render().fmt(f)?;\n"), ("        self.effects.write_to(write)?;\n\n        if let Some(fg) = self.fg {\n            fg.write_fg_to(write)?;\n        }\n", "        if let Some(fg) = self.fg {\n            fg.write_fg_to(write)?;\n        }\n        self.effects.write_to(write)?;\n")], ["C05"]),
 ("EQ-wincon-ansi-bg-before-fg", "anstyle-wincon/src/ansi.rs", [('        if let Some(fg) = fg {\n            write!(stream, "{}", fg.render_fg())?;\n        }\n        if let Some(bg) = bg {\n            write!(stream, "{}", bg.render_bg())?;\n        }', '        if let Some(bg) = bg {\n            write!(stream, "{}", bg.render_bg())?;\n        }\n        if let Some(fg) = fg {\n            write!(stream, "{}", fg.render_fg())?;\n        }')], ["C17"]),
 ("EQ-strip-stream-extra-flush", "anstream/src/strip.rs", [("    for printable in state.strip_next(buf) {\n        raw.write_all(printable)?;\n    }\n    Ok(())", "    for printable in state.strip_next(buf) {\n        raw.write_all(printable)?;\n    }\n    let _ = raw.flush();\n    Ok(())")], ["C06", "C08", "C01", "C03"]),
 ("EQ-strip-str-single-char-pieces", "anstream/src/adapter/strip.rs", [("    let (printable, next) = bytes.split_at(offset.unwrap_or(bytes.len()));\n    *bytes = next;\n    if printable.is_empty() {\n        None\n    } else {\n        let printable = unsafe {", "    let mut end = offset.unwrap_or(bytes.len());\n    if end > 1 && end < 256 && *state == State::Ground {\n        // yield one character at a time (short runs only: the scan above is repeated per piece)\n        end = 1;\n        while end < bytes.len() && is_utf8_continuation(bytes[end]) {\n            end += 1;\n        }\n    }\n    let (printable, next) = bytes.split_at(end);\n    *bytes = next;\n    if printable.is_empty() {\n        None\n    } else {\n        let printable = unsafe {")], ["C01", "C03", "C04"]),
 ("EQ-roff-nothing", "anstyle-roff/src/lib.rs", [("fn has_bright_fg(style: &Style) -> bool {\n    style\n        .get_fg_color()\n        .as_ref()\n        .map(is_bright)\n        .unwrap_or(false)\n}", "fn has_bright_fg(style: &Style) -> bool {\n    matches!(style.get_fg_color(), Some(c) if is_bright(&c))\n}")], ["C15"]),
 ("EQ-lossy-search-order", "anstyle-lossy/src/lib.rs", [("    let mut best_index = 16;\n    let mut best_distance = distance(color, XTERM_COLORS[best_index]);\n\n    let mut index = best_index + 1;\n    while index < XTERM_COLORS.len() {\n        let distance = distance(color, XTERM_COLORS[index]);\n        if distance < best_distance {\n            best_index = index;\n            best_distance = distance;\n        }\n\n        index += 1;\n    }", "    // search from the top, keeping the lowest index among equals\n    let mut best_index = XTERM_COLORS.len() - 1;\n    let mut best_distance = distance(color, XTERM_COLORS[best_index]);\n\n    let mut index = best_index;\n    while index > 16 {\n        index -= 1;\n        let distance = distance(color, XTERM_COLORS[index]);\n        if distance <= best_distance {\n            best_index = index;\n            best_distance = distance;\n        }\n    }")], ["C10"]),
 ("EQ-git-match-order", "anstyle-git/src/lib.rs", [('        "normal" => None,\n        "-1" => None,', '        "-1" | "normal" => None,')], ["C11"]),
]

def run_equivalent():
    if sh("git -C /repo status --porcelain --untracked-files=no").stdout.strip():
        print("/repo is not clean"); sys.exit(3)
    out = open(os.path.join(V, "sensitivity", "EQUIVALENT.md"), "w")
    out.write("# Semantics-preserving changes (the checks must stay silent)\n\n| change | verdict |\n|---|---|\n")
    for name, f, edits, checks in EQ:
        path = R + f
        src = open(path).read()
        ok = True
        for old, new in edits:
            if src.count(old) < 1:
                ok = False
            src = src.replace(old, new, 1)
        if not ok:
            print(name, "pattern not found"); out.write(f"| {name} | NOT-APPLIED |\n"); continue
        open(path, "w").write(src)
        try:
            verdicts = []
            for c in checks:
                r = sh(f"{V}/check {c} quick")
                verdicts.append(f"{c}:{'silent' if r.returncode == 0 else ('inconclusive/build' if r.returncode == 2 else 'ALARM')}")
                if r.returncode == 1:
                    print((r.stderr + r.stdout)[-600:])
            print(name, " ".join(verdicts), flush=True)
            out.write(f"| {name} | {' '.join(verdicts)} |\n")
        finally:
            sh("git -C /repo checkout -- .")

if __name__ == "__main__" and len(sys.argv) > 1 and sys.argv[1] == "--equivalent":
    run_equivalent()
